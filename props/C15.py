"""C15 - indicators match their definitions, ranges and orderings (dispatcher: proof; definitions: bounded in the length)."""
import json
import os
from fractions import Fraction
import z3
from pyvc.harness import Task, load_spec_module
from pyvc import ops, stubs, npvec
from pyvc.values import Obj, Sym, Arr, Vec, Opaque, NAN, OutOfSubset, nan_of, z3real, mk_bool
from props import indic
import contracts.C15 as K

PROPERTY = 'C15'
LEVEL = 'proof'
HERE = os.path.dirname(os.path.abspath(__file__))
SPEC = load_spec_module(os.path.join(HERE, '..', 'contracts', 'C15.py'), 'contracts.C15')
I = 'jesse.indicators'
FUNCTIONS = [f'{I}.ma.ma'] + [f'{I}.{n}.{n}' for n in ('sma', 'ema', 'wma', 'rsi', 'atr', 'roc', 'mom', 'obv', 'willr', 'donchian',
                                                        'typprice', 'medprice', 'bollinger_bands', 'dema', 'tema', 'wilders', 'trima')]
ASSUMPTIONS = [
    'A-1 reals; A-4; sqrt uninterpreted apart from sqrt(x) >= 0',
    'the selector clause is proved for all inputs (symbolic series length): ma() performs exactly one call of the selected average with '
    'the same series, period and source type, and returns its result / its last entry',
    'definitions, recurrence steps, ranges and orderings are BOUNDED stand-ins: series of 14 candles with symbolic values, periods 2, 3 '
    'and 5 (RSI: 2, 3 and 4 - its nonlinear range proof leaves the solvers at period 5); "in value once the seed has decayed" is not a deductive statement and is not claimed',
    'not under contract: MACD signal line, Keltner, CCI, MFI, ADX family, stochastics through the selector (partial claim, listed)',
]
TRUSTED = ['numpy element-wise model over concrete-length vectors (pyvc/npvec.py)']
EXPLANATION = 'ma() dispatcher: call-trace contract for every matype 0..39 (proof); textbook definitions bounded in the series length'
MANIFEST = {
    'category': 'proof',
    'text': 'Proved for all inputs: the generic moving-average selector ma() calls, for each matype 0..39, exactly the average named for '
            'that number once, with the (sliced) series, the period, the source type and sequential=True, and returns its result (or its '
            'last entry); matypes 7, 8, 19 raise. Also proved for EVERY series length (inductive loop invariants on the real numba kernels, z3): '
            'the EMA kernel (NaN warm-up, seed = mean of the first window, recurrence step at every position, symbolic period), Wilder\'s '
            'smoothing kernel and the EMA kernel of MACD (first value = first price, recurrence at every position, symbolic period), the '
            'ATR kernel (true range at every position, NaN warm-up, Wilder recurrence over the true range; periods 2, 5, 14 - symbolic period '
            'in the thorough tier), momentum through the real wrapper (NaN warm-up, x[j] - x[j-p] at every position, symbolic period), the four '
            'price transforms (formula, low <= value <= high), the Donchian channel (bands bound and are attained inside the trailing window, '
            'ordered, middle = mean; window 2 and 3, 5 in the thorough tier), the range [-100, 0] of Williams %R (window 2, 3), and the simple and '
            'the weighted moving average: exactly the (weighted) mean of the trailing window at every position (window 2, 3, 5). '
            'Bounded stand-ins (14 candles, symbolic values, periods 2/3/5, RSI 2/3/4), reported under '
            'bounded_checks: SMA/WMA/ROC/MOM/OBV/typical/median price equal their window definitions exactly, EMA/DEMA/TEMA/Wilders '
            'satisfy their recurrence step, RSI in [0,100], Williams %R in [-100,0], ATR >= 0 and its Wilder recurrence over the true '
            'range, Bollinger upper >= middle >= lower with middle == SMA, Donchian bounds enclose high/low, SMA/EMA/WMA scale linearly.',
    'note': 'unbounded: the selector clause and the kernels named above; the other definition clauses are bounded in the series length and '
            'cover the indicators listed in the evidence; the remaining families named in the statement are not under contract.',
}
N = 14
PERIODS = (2, 3, 5)


def t_dispatch(matype, sequential):
    def t(h):
        calls = []
        names = sorted(set(K.MATYPES.values()))
        for n in names:
            h.ctx.cfg.overrides[f'{I}.{n}.{n}'] = (lambda i, a, k, n=n: (calls.append((n, tuple(a), dict(k))), h.ctx.fresh_arr('res_' + n, n=a[0].n, np=True))[1])
        candles = h.ctx.fresh_arr('candles', np=True, cols=6)
        h.assume(ops.compare('>=', candles.n, 1))
        period = h.int('period', 1)
        src = 'hl2'
        out = h.outcome(f'{I}.ma.ma', candles, period, matype, src, sequential)
        if matype in K.INVALID_MATYPES:
            h.prove((not out.ok) and out.exc == 'ValueError' and calls == [], 'ma.invalid-matype-rejected')
            return
        h.prove(out.ok, 'ma.no-exception', {'raised': out.exc, 'matype': matype})
        if not out.ok:
            return
        want = K.MATYPES[matype]
        ok = len(calls) == 1 and calls[0][0] == want
        h.prove(ok, 'ma.calls-exactly-the-selected-average-once', {'matype': matype, 'called': [c[0] for c in calls], 'want': want})
        if not ok:
            return
        _, args, kw = calls[0]
        data = args[0]
        same_series = isinstance(data, Arr) and data.cols == 6
        if same_series:
            W = 240
            if sequential:
                same_series = data is candles or (ops.equal(data.n, candles.n) is True)
            j = h.int('j', 0)
            h.assume(ops.compare('<', j, data.n))
            off = ops.arith('-', candles.n, data.n)
            h.prove(ops.elem_equal(data.fn(j), candles.fn(ops.arith('+', j, off))), 'ma.passes-the-same-series-on',
                    {'clause': 'the selected average receives the (warm-up sliced) input candles'})
            if sequential:
                h.prove(ops.equal(data.n, candles.n), 'ma.sequential-series-is-not-sliced')
            else:
                # the single value is the one the selected average gives for the same arguments: it computes on the trailing warm-up
                # window (the averages are called with sequential=True and do not slice themselves)
                long_ = h.branch(ops.compare('>', candles.n, W))
                h.prove(ops.equal(data.n, W if long_ else candles.n), 'ma.single-value-series-is-the-trailing-warm-up-window')
        h.prove(same_series, 'ma.series-argument-is-the-candle-array')
        per_ok = True if want in K.NO_PERIOD else (len(args) > 1 and ops.equal(args[1], period) is True)
        h.prove(per_ok and kw.get('source_type') == src and kw.get('sequential') is True, 'ma.same-period-source-type-and-sequential-true',
                {'args': len(args), 'kw': {k: str(v)[:20] for k, v in kw.items()}})
        res = [c for c in calls][0]
        r = out.value
        if sequential:
            h.prove(isinstance(r, Arr) and r.tag is not None and r.tag.startswith('res_' + want), 'ma.returns-the-selected-series-unchanged')
        else:
            h.prove(isinstance(r, Sym), 'ma.returns-the-last-entry-of-the-selected-series')
        if matype == 0 and sequential:
            h.prove(calls[0][0] == 'ema', 'ma.mustfail')
    return t


def series(h, n=N, name='x', positive=True):
    xs = [h.real(f'{name}{j}') for j in range(n)]
    if positive:
        for x in xs:
            h.assume(ops.compare('>', x, 0))
    return xs


def eq_at(h, got, want, j0=0):
    """position-wise equality of a result vector with a spec list (NaN == NaN)"""
    g = indic.as_vec(got)
    goal = len(g.e) == len(want)
    if not goal:
        return False
    goal = True
    for a, b in zip(g.e, want):
        goal = ops.land(goal, True if indic.same_term(a, b) else ops.same_value(a, b))
    return goal


def t_window(name, p):
    """exact window definitions"""
    def t(h):
        indic.setup()
        xs = series(h)
        v = Vec(list(xs))
        if name in ('sma', 'wma', 'roc', 'mom'):
            if name == 'mom':
                rows = indic.candle_rows(h, N)
                xs = [r.e[2] for r in rows]
                v = indic.arr2d(rows)
            out = h.outcome(f'{I}.{name}.{name}', v, p, sequential=True)
            if not out.ok:
                raise OutOfSubset(f'{name} raised {out.exc} under the engine')
            want = h.spec(name, xs, p)
            h.prove(eq_at(h, out.value, want), f'{name}.equals-its-window-definition', {'period': p})
        if name in ('sma', 'wma', 'ema'):
            k = h.real('scale', 0)
            h.assume(ops.compare('>', k, 0))
            a = h.call(f'{I}.{name}.{name}', Vec(list(xs)), p, sequential=True)
            b = h.call(f'{I}.{name}.{name}', Vec([ops.arith('*', k, x) for x in xs]), p, sequential=True)
            goal = True
            for x, y in zip(indic.as_vec(a).e, indic.as_vec(b).e):
                goal = ops.land(goal, ops.same_value(ops.arith('*', k, x) if x is not NAN else NAN, y))
            h.prove(goal, f'{name}.scales-linearly-with-price', {'period': p})
    return t


def t_recurrence(name, p):
    def t(h):
        indic.setup()
        xs = series(h)
        out = h.outcome(f'{I}.{name}.{name}', Vec(list(xs)), p, sequential=True)
        if not out.ok:
            raise OutOfSubset(f'{name} raised {out.exc} under the engine')
        r = indic.as_vec(out.value).e
        h.prove(len(r) == N, f'{name}.one-entry-per-value')
        alpha = Fraction(2, p + 1)
        goal = True

        def step(series_, src, a):
            g = True
            for j in range(1, len(series_)):
                if series_[j - 1] is NAN or series_[j] is NAN:
                    continue
                g = ops.land(g, ops.same_value(series_[j], ops.arith('+', ops.arith('*', a, src[j]), ops.arith('*', 1 - a, series_[j - 1]))))
            return g
        if name == 'ema':
            goal = step(r, xs, alpha)
            seed = Fraction(0)
            for x in xs[:p]:
                seed = ops.arith('+', seed, x)
            goal = ops.land(goal, ops.same_value(r[p - 1], ops.arith('/', seed, p)))
            goal = ops.land(goal, all(x is NAN for x in r[:p - 1]))
        elif name == 'wilders':
            goal = step(r, xs, Fraction(1, p))
        elif name in ('dema', 'tema'):
            # e1 = EMA(x), e2 = EMA(e1), e3 = EMA(e2) with seed = first value; dema = 2 e1 - e2, tema = 3 e1 - 3 e2 + e3
            def ema0(src):
                o = [src[0]]
                for j in range(1, len(src)):
                    o.append(ops.arith('+', ops.arith('*', alpha, src[j]), ops.arith('*', 1 - alpha, o[j - 1])))
                return o
            e1 = ema0(xs)
            e2 = ema0(e1)
            e3 = ema0(e2)
            for j in range(N):
                w = ops.arith('-', ops.arith('*', 2, e1[j]), e2[j]) if name == 'dema' else \
                    ops.arith('+', ops.arith('-', ops.arith('*', 3, e1[j]), ops.arith('*', 3, e2[j])), e3[j])
                goal = ops.land(goal, ops.same_value(r[j], w))
        h.prove(goal, f'{name}.satisfies-its-recurrence-and-seed', {'period': p})
    return t


def t_candle_based(name, p):
    def t(h):
        indic.setup()
        rows = indic.candle_rows(h, N)
        c = indic.arr2d(rows)
        close = [r.e[2] for r in rows]
        high = [r.e[3] for r in rows]
        low = [r.e[4] for r in rows]
        vol = [r.e[5] for r in rows]
        for ax in npvec_axioms():
            h.ctx.s.add(ax)
        if name == 'obv':
            out = h.outcome(f'{I}.obv.obv', c, sequential=True)
            if not out.ok:
                raise OutOfSubset('obv raised under the engine')
            h.prove(eq_at(h, out.value, h.spec('obv', close, vol)), 'obv.equals-cumulative-signed-volume')
            return
        if name in ('typprice', 'medprice'):
            out = h.call(f'{I}.{name}.{name}', c, sequential=True)
            want = [ops.arith('/', ops.arith('+', ops.arith('+', high[j], low[j]), close[j]), 3) if name == 'typprice'
                    else ops.arith('/', ops.arith('+', high[j], low[j]), 2) for j in range(N)]
            h.prove(eq_at(h, out, want), f'{name}.equals-its-definition')
            return
        if name == 'rsi':
            c = indic.arr2d(rows[:p + 4])       # nonlinear range proof: keep the series short
            out = h.call(f'{I}.rsi.rsi', c, p, sequential=True)
            g = True
            for x in indic.as_vec(out).e:
                if x is NAN:
                    continue
                g = ops.land(g, ops.land(ops.compare('>=', x, 0), ops.compare('<=', x, 100)))
            h.prove(g, 'rsi.stays-in-0-100', {'period': p})
            want = h.spec('rsi_wilder', close[:p + 4], p)
            got = indic.as_vec(out).e
            h.prove(len(got) == len(want), 'rsi.one-entry-per-value')
            for j in range(min(len(got), len(want))):
                h.prove(True if indic.same_term(got[j], want[j]) else ops.same_value(got[j], want[j]), 'rsi.equals-wilders-definition',
                        {'period': p, 'index': j})
            return
        if name == 'willr':
            out = h.call(f'{I}.willr.willr', c, p, sequential=True)
            g = True
            for x in indic.as_vec(out).e:
                if x is NAN:
                    continue
                g = ops.land(g, ops.land(ops.compare('>=', x, -100), ops.compare('<=', x, 0)))
            h.prove(g, 'willr.stays-in-minus100-0', {'period': p})
            return
        if name == 'atr':
            out = h.call(f'{I}.atr.atr', c, p, sequential=True)
            r = indic.as_vec(out).e
            g = True
            rec = True
            for j in range(N):
                if r[j] is NAN:
                    continue
                g = ops.land(g, ops.compare('>=', r[j], 0))
                if j >= 1 and r[j - 1] is not NAN:
                    tr = h.spec('true_range', high, low, close, j)
                    rec = ops.land(rec, ops.same_value(r[j], ops.arith('/', ops.arith('+', ops.arith('*', r[j - 1], p - 1), tr), p)))
            h.prove(g, 'atr.is-non-negative', {'period': p})
            h.prove(rec, 'atr.wilder-recurrence-over-the-true-range', {'period': p})
            return
        if name == 'donchian':
            out = h.call(f'{I}.donchian.donchian', c, p, sequential=True)
            up, mid, lo = [indic.as_vec(x).e for x in out]
            g = True
            for j in range(N):
                if up[j] is NAN:
                    continue
                g = ops.land(g, ops.land(ops.compare('>=', up[j], high[j]), ops.compare('<=', lo[j], low[j])))
                g = ops.land(g, ops.land(ops.compare('>=', up[j], mid[j]), ops.compare('>=', mid[j], lo[j])))
            h.prove(g, 'donchian.bounds-enclose-the-price-and-are-ordered', {'period': p})
            return
        if name == 'bollinger_bands':
            out = h.call(f'{I}.bollinger_bands.bollinger_bands', c, p, sequential=True)
            up, mid, lo = [indic.as_vec(x).e for x in out]
            want_mid = h.spec('sma', close, p)
            g = True
            for j in range(N):
                if up[j] is NAN or (isinstance(up[j], Sym) and False):
                    continue
                g = ops.land(g, ops.land(ops.compare('>=', up[j], mid[j]), ops.compare('>=', mid[j], lo[j])))
            h.prove(g, 'bollinger.upper-ge-middle-ge-lower', {'period': p})
            h.prove(eq_at(h, out[1], want_mid), 'bollinger.middle-band-is-the-sma', {'period': p})
            return
        raise OutOfSubset('no definition task for ' + name)
    return t


def npvec_axioms():
    """sqrt is uninterpreted apart from: sqrt(x) >= 0"""
    ax = []
    f = npvec._UF.get(('sqrt', 1))
    if f is None:
        npvec.uf('sqrt', Sym(z3.Real('probe!sqrt'), 'real'))
        f = npvec._UF.get(('sqrt', 1))
    q = z3.Real('q!sqrt')
    ax.append(z3.ForAll([q], f(q) >= 0))
    return ax


def t_native_definitions(h):
    """BOUNDED, native: textbook definitions where the symbolic layer does not reach or real arithmetic hides the defect:
    Wilder's ADX on series with exact ties, stochastic %K / %D with different smoothing types, standard deviation at a huge
    price level (cancellation), plus the definitions of native/C15.py on random / spiky series"""
    from pyvc import report as R
    here = os.path.dirname(os.path.dirname(os.path.abspath(__file__)))
    res = R.native([os.path.join(here, 'native', 'run.py'), 'C15'], {'bounded': 'definitions'})
    if res.get('error'):
        raise RuntimeError(f'bounded native check failed to run: {res}')
    h.cover('native.definitions.pre')
    h.prove(not res.get('confirmed'), 'definitions-hold-on-ties-mixed-smoothing-and-huge-prices.native-bounded', {'detail': res.get('detail')})


EMA_KERNEL = 'jesse.indicators.ema._ema'
EMA_INV = {(EMA_KERNEL, 0): [
    "forall(lambda j: isnan(result[j]), 0, period - 1)",
    "result[period - 1] == initial",
    "forall(lambda j: result[j] == alpha * source[j] + (1 - alpha) * result[j - 1], period, i)",
    "prev == result[i - 1]",
    "len(result) == n",
]}


def t_ema_unbounded(h):
    """UNBOUNDED in the series length and in the period: the real numba kernel of the exponential moving average with an inductive
    loop invariant - warm-up NaN, seed = mean of the first `period` prices, and the recurrence step
    e[j] = a x[j] + (1 - a) e[j-1] with a = 2 / (period + 1) at EVERY later position"""
    src = h.ctx.fresh_arr('x', np=True)
    n = src.n
    period = h.int('period', 1)
    h.assume(ops.compare('>=', n, period))
    h.cover('ema.unbounded.pre')
    out = h.outcome(EMA_KERNEL, src, period)
    h.prove(out.ok, 'ema.kernel.no-exception', {'raised': out.exc})
    if not out.ok:
        return
    r = out.value
    env = dict(r=r, x=src, p=period, n=n)
    h.prove(h.ev('len(r) == n', **env), 'ema.kernel.one-entry-per-value.for-every-length-and-period')
    h.prove(h.ev('forall(lambda j: isnan(r[j]), 0, p - 1)', **env), 'ema.kernel.warm-up-is-nan.for-every-length-and-period')
    h.prove(h.ev('forall(lambda j: r[j] == (2 / (p + 1)) * x[j] + (1 - 2 / (p + 1)) * r[j - 1], p, n)', **env),
            'ema.kernel.recurrence-step-at-every-position.for-every-length-and-period')


WILDERS_KERNEL = 'jesse.indicators.wilders._wilders_fast'
WILDERS_INV = {(WILDERS_KERNEL, 0): [
    "res[0] == source[0]",
    "forall(lambda j: res[j] == (res[j - 1] * (period - 1) + source[j]) / period, 1, i)",
    "len(res) == len(source)",
]}
ATR_KERNEL = 'jesse.indicators.atr._atr'
TR = "max(max(high[j] - low[j], abs(high[j] - close[j - 1])), abs(low[j] - close[j - 1]))"
ATR_INV = {
    (ATR_KERNEL, 0): [
        "tr[0] == high[0] - low[0]",
        f"forall(lambda j: tr[j] == {TR}, 1, i)",
        "len(tr) == n",
        "forall(lambda j: isnan(atr_values[j]), 0, n)",
        "len(atr_values) == n",
    ],
    (ATR_KERNEL, 1): [
        "tr[0] == high[0] - low[0]",
        f"forall(lambda j: tr[j] == {TR}, 1, n)",
        "forall(lambda j: isnan(atr_values[j]), 0, period - 1)",
        "not isnan(atr_values[period - 1])",
        "forall(lambda j: atr_values[j] == (atr_values[j - 1] * (period - 1) + tr[j]) / period, period, i)",
        "len(atr_values) == n",
    ],
}


MACD_EMA = 'jesse.indicators.macd.ema_numba'
MACD_EMA_INV = {(MACD_EMA, 0): [
    "ema_array[0] == source[0]",
    "forall(lambda j: ema_array[j] == alpha * source[j] + (1 - alpha) * ema_array[j - 1], 1, i)",
    "len(ema_array) == len(source)",
]}


def t_macd_ema_unbounded(h):
    """UNBOUNDED: the EMA kernel of MACD - first value is the first price, then e[j] = a x[j] + (1 - a) e[j-1], a = 2 / (period + 1)"""
    src = h.ctx.fresh_arr('x', np=True)
    n = src.n
    period = h.int('period', 1)
    h.assume(ops.compare('>=', n, 1))
    h.cover('macd-ema.unbounded.pre')
    out = h.outcome(MACD_EMA, src, period)
    h.prove(out.ok, 'macd.ema-kernel.no-exception', {'raised': out.exc})
    if not out.ok:
        return
    env = dict(r=out.value, x=src, p=period, n=n)
    h.prove(h.ev('len(r) == n and r[0] == x[0]', **env), 'macd.ema-kernel.starts-at-the-first-price.for-every-length-and-period')
    h.prove(h.ev('forall(lambda j: r[j] == (2.0 / (p + 1)) * x[j] + (1 - 2.0 / (p + 1)) * r[j - 1], 1, n)', **env),
            'macd.ema-kernel.recurrence-step-at-every-position.for-every-length-and-period')


def t_wilders_unbounded(h):
    """UNBOUNDED: Wilder's smoothing kernel - first value is the first price, then w[j] = (w[j-1] (p - 1) + x[j]) / p everywhere"""
    src = h.ctx.fresh_arr('x', np=True)
    n = src.n
    period = h.int('period', 1)
    h.assume(ops.compare('>=', n, 1))
    h.cover('wilders.unbounded.pre')
    out = h.outcome(WILDERS_KERNEL, src, period)
    h.prove(out.ok, 'wilders.kernel.no-exception', {'raised': out.exc})
    if not out.ok:
        return
    env = dict(r=out.value, x=src, p=period, n=n)
    h.prove(h.ev('len(r) == n and r[0] == x[0]', **env), 'wilders.kernel.starts-at-the-first-price.for-every-length-and-period')
    h.prove(h.ev('forall(lambda j: r[j] == (r[j - 1] * (p - 1) + x[j]) / p, 1, n)', **env),
            'wilders.kernel.recurrence-step-at-every-position.for-every-length-and-period')


def t_atr_unbounded(P):
  def t(h):
    """UNBOUNDED in the series length (period fixed per task: the products with a symbolic period are nonlinear and time out): the ATR
    kernel - true range at every position, NaN warm-up, Wilder recurrence over the true range from `period` on"""
    hi, lo, cl = (h.ctx.fresh_arr(nm, np=True) for nm in ('high', 'low', 'close'))
    n = cl.n
    h.assume(ops.land(ops.equal(hi.n, n), ops.equal(lo.n, n)))
    period = P if P is not None else h.int('period', 1)
    h.assume(ops.compare('>=', n, period))
    h.cover('atr.unbounded.pre')
    out = h.outcome(ATR_KERNEL, hi, lo, cl, period)
    h.prove(out.ok, 'atr.kernel.no-exception', {'raised': out.exc})
    if not out.ok:
        return
    env = dict(r=out.value, high=hi, low=lo, close=cl, p=period, n=n)
    h.prove(h.ev('len(r) == n and forall(lambda j: isnan(r[j]), 0, p - 1)', **env), 'atr.kernel.warm-up-is-nan.for-every-length')
    h.prove(h.ev(f'forall(lambda j: r[j] == (r[j - 1] * (p - 1) + {TR}) / p, p, n)', **env),
            'atr.kernel.wilder-recurrence-over-the-true-range-at-every-position.for-every-length')
  return t


PRICE_TRANSFORMS = {'typprice': '(c[j][2] + c[j][3] + c[j][4]) / 3', 'medprice': '(c[j][3] + c[j][4]) / 2',
                    'avgprice': '(c[j][1] + c[j][3] + c[j][4] + c[j][2]) / 4', 'wclprice': '(c[j][3] + c[j][4] + 2 * c[j][2]) / 4'}


def t_price_transform(name):
    """UNBOUNDED: a price transform through the real wrapper on a candle array of symbolic length equals its textbook formula at EVERY
    position, lies between low and high, and scales linearly with the price"""
    def t(h):
        c = h.ctx.fresh_arr('candles', np=True, cols=6)
        n = c.n
        h.assume(ops.compare('>=', n, 1))
        q = ops.fresh_qvar('k')
        row = c.fn(Sym(q, 'int'))
        valid = z3.And(row.e[4].t <= row.e[1].t, row.e[4].t <= row.e[2].t, row.e[1].t <= row.e[3].t, row.e[2].t <= row.e[3].t)
        h.ctx.s.add(z3.ForAll([q], z3.Implies(z3.And(q >= 0, q < n.t), valid)))       # valid candles: low <= open, close <= high
        h.cover(f'{name}.unbounded.pre')
        out = h.outcome(f'jesse.indicators.{name}.{name}', c, sequential=True)
        h.prove(out.ok, f'{name}.series.no-exception', {'raised': out.exc})
        if not out.ok:
            return
        env = dict(r=out.value, c=c, n=n)
        h.prove(h.ev('len(r) == n', **env), f'{name}.series.one-entry-per-candle.for-every-length')
        h.prove(h.ev(f'forall(lambda j: r[j] == {PRICE_TRANSFORMS[name]}, 0, n)', **env), f'{name}.series.equals-its-formula-at-every-position.for-every-length')
        h.prove(h.ev('forall(lambda j: c[j][4] <= r[j] and r[j] <= c[j][3], 0, n)', **env), f'{name}.series.lies-between-low-and-high.for-every-length')
    return t


def t_donchian_unbounded(P):
    """UNBOUNDED in the series length (window width fixed per task): Donchian channel through the real wrapper - NaN warm-up, the upper
    band is the highest high and the lower band the lowest low of the trailing window (bound and attainment), the bands enclose the
    candle and are ordered upper >= middle >= lower at EVERY position"""
    def t(h):
        c = h.ctx.fresh_arr('candles', np=True, cols=6)
        n = c.n
        h.assume(ops.compare('>=', n, P))
        q = ops.fresh_qvar('k')
        row = c.fn(Sym(q, 'int'))
        valid = z3.And(row.e[4].t <= row.e[1].t, row.e[4].t <= row.e[2].t, row.e[1].t <= row.e[3].t, row.e[2].t <= row.e[3].t)
        h.ctx.s.add(z3.ForAll([q], z3.Implies(z3.And(q >= 0, q < n.t), valid)))
        h.cover('donchian.unbounded.pre')
        out = h.outcome('jesse.indicators.donchian.donchian', c, P, sequential=True)
        h.prove(out.ok, 'donchian.series.no-exception', {'raised': out.exc})
        if not out.ok:
            return
        r = out.value
        f_ = dict(zip(r._fields, list(r)))
        env = dict(u=f_['upperband'], m=f_['middleband'], l=f_['lowerband'], c=c, n=n, p=P)
        h.prove(h.ev('len(u) == n and len(m) == n and len(l) == n', **env), 'donchian.series.one-entry-per-candle.for-every-length')
        h.prove(h.ev('forall(lambda j: isnan(u[j]) and isnan(l[j]), 0, p - 1)', **env), 'donchian.series.warm-up-is-nan.for-every-length')
        h.prove(h.ev('forall(lambda j: forall(lambda t: u[j] >= c[j - t][3] and l[j] <= c[j - t][4], 0, p), p - 1, n)', **env),
                'donchian.series.bands-bound-every-candle-of-the-trailing-window.for-every-length')
        h.prove(h.ev('forall(lambda j: exists(lambda t: u[j] == c[j - t][3], 0, p) and exists(lambda t: l[j] == c[j - t][4], 0, p), p - 1, n)', **env),
                'donchian.series.bands-are-attained-inside-the-trailing-window.for-every-length')
        h.prove(h.ev('forall(lambda j: u[j] >= m[j] and m[j] >= l[j] and m[j] == (u[j] + l[j]) / 2, p - 1, n)', **env),
                'donchian.series.bands-are-ordered-and-the-middle-is-their-mean.for-every-length')
    return t


def t_average_unbounded(name, P):
    """UNBOUNDED in the series length (window width fixed per task): the simple / weighted moving average through the real wrapper on a
    price series of symbolic length - NaN warm-up, and EXACTLY the (weighted) mean of the trailing window at every later position"""
    def t(h):
        src = h.ctx.fresh_arr('x', np=True)
        n = src.n
        h.assume(ops.compare('>=', n, 1))
        h.cover(f'{name}.unbounded.pre')
        out = h.outcome(f'jesse.indicators.{name}.{name}', src, P, sequential=True)
        h.prove(out.ok, f'{name}.series.no-exception', {'raised': out.exc})
        if not out.ok:
            return
        short = h.branch(ops.compare('<', n, P))
        env = dict(r=out.value, x=src, n=n, p=P)
        upto = n if short else P - 1
        h.prove(h.ev('len(r) == n and forall(lambda j: isnan(r[j]), 0, upto)', upto=upto, **env), f'{name}.series.one-entry-per-value-and-nan-warm-up.for-every-length')
        if short:
            return
        if name == 'sma':
            win = ' + '.join(f'x[j - {t}]' for t in range(P))
            text = f'r[j] * {P} == {win}'
        else:
            win = ' + '.join(f'{P - t} * x[j - {t}]' for t in range(P))
            text = f'r[j] * {P * (P + 1) // 2} == {win}'
        h.prove(h.ev(f'forall(lambda j: (not isnan(r[j])) and {text}, p - 1, n)', **env),
                f'{name}.series.is-the-exact-trailing-window-average-at-every-position.for-every-length')
    return t


def t_willr_unbounded(P):
    """UNBOUNDED in the series length (window width fixed per task): Williams %R through the real wrapper stays inside [-100, 0] at
    EVERY position after the warm-up, for every series of valid candles"""
    def t(h):
        c = h.ctx.fresh_arr('candles', np=True, cols=6)
        n = c.n
        h.assume(ops.compare('>=', n, P))
        q = ops.fresh_qvar('k')
        row = c.fn(Sym(q, 'int'))
        valid = z3.And(row.e[4].t <= row.e[1].t, row.e[4].t <= row.e[2].t, row.e[1].t <= row.e[3].t, row.e[2].t <= row.e[3].t)
        h.ctx.s.add(z3.ForAll([q], z3.Implies(z3.And(q >= 0, q < n.t), valid)))
        h.cover('willr.unbounded.pre')
        out = h.outcome('jesse.indicators.willr.willr', c, P, sequential=True)
        h.prove(out.ok, 'willr.series.no-exception', {'raised': out.exc})
        if not out.ok:
            return
        env = dict(r=out.value, n=n, p=P)
        h.prove(h.ev('len(r) == n and forall(lambda j: isnan(r[j]), 0, p - 1)', **env), 'willr.series.one-entry-per-candle-and-nan-warm-up.for-every-length')
        h.prove(h.ev('forall(lambda j: -100 <= r[j] and r[j] <= 0, p - 1, n)', **env), 'willr.series.stays-inside-its-range-at-every-position.for-every-length')
    return t


def t_window_unbounded(name):
    """UNBOUNDED in length and period: momentum / rate of change through the real wrapper on a candle array of symbolic length: NaN
    during the first `period` positions, then close[j] - close[j-p] resp. (close[j] / close[j-p] - 1) * 100 at EVERY position"""
    def t(h):
        c = h.ctx.fresh_arr('candles', np=True, cols=6)
        n = c.n
        period = h.int('period', 1)
        h.assume(ops.compare('>=', n, 1))
        q = ops.fresh_qvar('k')
        h.ctx.s.add(z3.ForAll([q], z3.Implies(z3.And(q >= 0, q < n.t), c.fn(Sym(q, 'int')).e[2].t > 0)))       # prices are positive
        h.cover(f'{name}.unbounded.pre')
        out = h.outcome(f'jesse.indicators.{name}.{name}', c, period, sequential=True)
        h.prove(out.ok, f'{name}.series.no-exception', {'raised': out.exc})
        if not out.ok:
            return
        env = dict(r=out.value, c=c, p=period, n=n)
        h.prove(h.ev('len(r) == n', **env), f'{name}.series.one-entry-per-candle.for-every-length-and-period')
        short = h.branch(ops.compare('<', n, period))
        upto = n if short else period
        h.prove(h.ev('forall(lambda j: isnan(r[j]), 0, upto)', upto=upto, **env), f'{name}.series.warm-up-is-nan.for-every-length-and-period')
        if not short:
            # roc: r == (x / y - 1) * 100 with y > 0, stated without the division (a quotient may raise inside a clause)
            text = 'r[j] == c[j][2] - c[j - p][2]' if name == 'mom' else '(not isnan(r[j])) and r[j] * c[j - p][2] == (c[j][2] - c[j - p][2]) * 100'
            h.prove(h.ev(f'forall(lambda j: {text}, p, n)', **env),
                    f'{name}.series.equals-its-definition-at-every-position.for-every-length-and-period')
    return t


def tasks(tier):
    x = dict(spec_mod=SPEC)
    ov = stubs.backtest_mode()
    ov.update(indic.overrides())
    ts = []
    for m in range(0, 40):
        for seq in (True, False):
            ts.append(Task(f'dispatch.matype{m}.{"seq" if seq else "single"}', t_dispatch(m, seq), extra=dict(x), overrides=dict(ov)))
    bx = dict(indic.CFG_EXTRA, spec_mod=SPEC, bounded=f'series of {N} values, periods {PERIODS}', task_timeout_s=600)
    periods = PERIODS if tier == 'thorough' else (2, 3)
    for p in periods:
        for n in ('sma', 'wma', 'roc', 'mom', 'ema'):
            ts.append(Task(f'window.{n}.p{p}', t_window(n, p), extra=dict(bx), overrides=dict(ov), prove_timeout_ms=180000))
        for n in ('ema', 'wilders', 'dema', 'tema'):
            ts.append(Task(f'recurrence.{n}.p{p}', t_recurrence(n, p), extra=dict(bx), overrides=dict(ov), prove_timeout_ms=180000))
        for n in ('rsi', 'willr', 'atr', 'donchian', 'bollinger_bands'):
            if n == 'rsi' and p > 4:
                continue                 # nonlinear range proof over p + 4 values: beyond the solvers for p = 5 (10 min, undecided)
            ts.append(Task(f'candle.{n}.p{p}', t_candle_based(n, p), extra=dict(bx, fork_solver=(n == 'rsi')), overrides=dict(ov),
                           prove_timeout_ms=180000))
    if tier == 'thorough':
        ts.append(Task('candle.rsi.p4', t_candle_based('rsi', 4), extra=dict(bx, fork_solver=True), overrides=dict(ov), prove_timeout_ms=180000))
    ts.append(Task('ema.unbounded', t_ema_unbounded, extra=dict(spec_mod=SPEC), overrides=dict(ov), invariants=dict(EMA_INV), prove_timeout_ms=60000))
    ts.append(Task('wilders.unbounded', t_wilders_unbounded, extra=dict(spec_mod=SPEC), overrides=dict(ov), invariants=dict(WILDERS_INV), prove_timeout_ms=60000))
    for P in ((2, 5, 14) if tier == 'quick' else (2, 5, 14, None)):
        ts.append(Task(f'atr.unbounded.p{P}', t_atr_unbounded(P), extra=dict(spec_mod=SPEC), overrides=dict(ov), invariants=dict(ATR_INV), prove_timeout_ms=(60000 if P is not None else 900000)))
    ts.append(Task('macd-ema.unbounded', t_macd_ema_unbounded, extra=dict(spec_mod=SPEC), overrides=dict(ov), invariants=dict(MACD_EMA_INV), prove_timeout_ms=60000))
    for P in ((2, 3) if tier == 'quick' else (2, 3, 5)):
        ts.append(Task(f'donchian.unbounded.p{P}', t_donchian_unbounded(P), extra=dict(spec_mod=SPEC), overrides=dict(ov), prove_timeout_ms=(60000 if P < 5 else 900000)))
    for nm in ('sma', 'wma'):
        for P in (2, 3, 5):
            ts.append(Task(f'{nm}.unbounded.p{P}', t_average_unbounded(nm, P), extra=dict(spec_mod=SPEC), overrides=dict(ov), prove_timeout_ms=60000))
    for P in (2, 3):
        ts.append(Task(f'willr.unbounded.p{P}', t_willr_unbounded(P), extra=dict(spec_mod=SPEC), overrides=dict(ov), prove_timeout_ms=60000))
    for nm in sorted(PRICE_TRANSFORMS):
        ts.append(Task(f'{nm}.unbounded', t_price_transform(nm), extra=dict(spec_mod=SPEC), overrides=dict(ov), prove_timeout_ms=60000))
    for nm in ('mom',):
        ts.append(Task(f'{nm}.unbounded', t_window_unbounded(nm), extra=dict(spec_mod=SPEC), overrides=dict(ov), prove_timeout_ms=60000))
    from props import common as _common
    ts.append(Task('frame', _common.frame_task(['jesse.helpers.get_candle_source', 'jesse.helpers.slice_candles', 'jesse.helpers.same_length', 'jesse.helpers.np_shift', 'jesse.indicators.ma.ma'])))
    ts.append(Task('native.definitions', t_native_definitions, extra=dict(spec_mod=SPEC, bounded='native: ADX (ties), stoch (mixed matypes), stddev (price level 1e9), random / spiky series')))
    for n in ('obv', 'typprice', 'medprice'):
        ts.append(Task(f'candle.{n}', t_candle_based(n, 0), extra=dict(bx), overrides=dict(ov)))
    return ts
