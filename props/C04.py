"""C04 - spot balances equal a cash-account model; no overspending or overselling (P-HIST)."""
import json
import os
from fractions import Fraction
from pyvc.harness import Task, load_spec_module
from pyvc import ops, stubs
from pyvc.values import Obj, Sym, Arr, Vec
from props import common
import contracts.C04 as K

PROPERTY = 'C04'
LEVEL = 'proof'
HERE = os.path.dirname(os.path.abspath(__file__))
SPEC = load_spec_module(os.path.join(HERE, '..', 'contracts', 'C04.py'), 'contracts.C04')
EX = 'jesse.models.SpotExchange.SpotExchange'
FUNCTIONS = [f'{EX}.on_order_submission', f'{EX}.on_order_execution', f'{EX}.on_order_cancellation', f'{EX}.wallet_balance',
             'jesse.models.Order.Order.execute', 'jesse.models.Order.Order.cancel', 'jesse.models.Order.Order.__init__',
             'jesse.models.Position.Position._on_executed_order', 'jesse.models.Position.Position._update_qty',
             'jesse.models.Position.Position._mutating_open', 'jesse.models.Position.Position._mutating_close',
             'jesse.models.Position.Position._mutating_increase', 'jesse.models.Position.Position._mutating_reduce',
             'jesse.utils.sum_floats', 'jesse.utils.subtract_floats', 'jesse.helpers.base_asset']
ASSUMPTIONS = [
    'A-1 floats are reals; A-2 sum_floats/subtract_floats are exact decimal +/- (identity on the real model)',
    'A-6 backtest mode; A-7 Order is a record of its attributes; store.completed_trades is a recording stub (trade log is C06)',
    'P-HIST: each operation is proved from an arbitrary state satisfying the cash-account invariant, so the refinement holds after '
    'every history; a rejected submission ends the sequence (its post-state is not constrained)',
    'legal histories: an executed or cancelled resting sell was submitted before (its per-kind sum entry exists)',
    'A-16 peewee hands the same default object to every record (JSONField(default={}) is one dict shared by all orders): modelled, so '
    'state kept in such a field is shared between the orders of a history (cancel-after-other.*)',
]
TRUSTED = ['decimal.Decimal (A-2)', 'dict.get', 'abs', 'min']
EXPLANATION = 'submit/cancel/execute x buy/sell x MARKET/LIMIT/STOP from an arbitrary well-formed state against the cash-account model'
MANIFEST = {
    'technique': 'contract-based deductive verification: per-operation refinement of the cash-account model (z3); bounded native decimal-boundary histories for the float/real gap',
    'category': 'proof',
    'text': 'SpotExchange.on_order_submission / on_order_cancellation and Order.execute (exchange settlement + position update) '
            'are executed symbolically for every side x order type from an arbitrary state satisfying the cash-account invariant and '
            'proved to (i) reject with InsufficientBalance exactly when the model does, (ii) leave (quote, base, stop_sum, limit_sum) '
            'equal to the model step, (iii) keep every balance non-negative, (iv) keep position size == base balance.',
    'note': 'A-1/A-2 (decimal helpers exact); per-operation refinement + invariant preservation gives every history by induction; '
            'recorded finding: a sell that executes for more than the base held (two full-size sells of different kinds) flips the '
            'Position short while the exchange clamps - the obligation is proved outside that case and the witness replayed.',
}

FINDINGS = set(json.loads(os.environ.get('PYVC_FINDINGS', '[]')))


def mk_order(h, side, kind, q, p, symbol='BTC-USDT', status='ACTIVE'):
    qty = q if side == 'buy' else ops.neg(q)
    # reduce-only or not is a finite enumeration: the cash-account rules are the same for both
    # (exits, i.e. sells: a reduce-only buy does not occur on a spot exchange - there is no short position to reduce)
    ro = True if (side == 'sell' and h.branch(h.bool('reduce_only'))) else False
    return common.mk_order(h, side=side, type=kind, qty=qty, price=p, symbol=symbol, exchange='Sandbox', reduce_only=ro,
                           status=status)


def pre(h, sums_present=True):
    w = common.spot_world(h, sums_present=sums_present)
    q = h.real('q')
    p = h.real('p')
    h.assume(ops.compare('>', q, 0))
    h.assume(ops.compare('>', p, 0))
    v = h.spec('view', w.exchange, 'BTC-USDT', 'BTC')
    h.assume(h.spec('wf', v))
    return w, q, p, v


def t_submit(side, kind, present):
    def t(h):
        w, q, p, v = pre(h, present)
        o = mk_order(h, side, kind, q, p)
        h.cover('submit.pre')
        sp = h.spec_outcome('m_submit', v, side, kind, q, p)
        out = h.method_outcome(w.exchange, 'on_order_submission', o)
        name = f'submit.{side}.{kind}'
        if sp.ok:
            h.prove(out.ok, f'{name}.accepted-when-model-accepts', {'raised': out.exc})
            if out.ok:
                v2 = h.spec('view', w.exchange, 'BTC-USDT', 'BTC')
                h.prove(ops.equal(v2, sp.value), f'{name}.balances-equal-model')
                h.prove(h.spec('wf', v2), f'{name}.no-negative-balance')
        else:
            h.prove((not out.ok) and out.exc == 'InsufficientBalance', f'{name}.rejected-iff-model-rejects',
                    {'got': out.exc if not out.ok else 'accepted'})
    return t


def t_cancel(side, kind):
    def t(h):
        w, q, p, v = pre(h, True)
        store, trace = common.trades_store(h)
        if side == 'buy':
            pass
        elif kind == 'STOP':
            h.assume(ops.compare('>=', v[2], q))        # the order being cancelled is one of the resting stops
        elif kind == 'LIMIT':
            h.assume(ops.compare('>=', v[3], q))
        o = mk_order(h, side, kind, q, p)
        h.cover('cancel.pre')
        want = h.spec('m_cancel', v, side, kind, q, p)
        out = h.method_outcome(o, 'cancel')
        name = f'cancel.{side}.{kind}'
        h.prove(out.ok, f'{name}.no-exception', {'raised': out.exc})
        if out.ok:
            v2 = h.spec('view', w.exchange, 'BTC-USDT', 'BTC')
            h.prove(ops.equal(v2, want), f'{name}.releases-exactly-what-was-reserved')
            h.prove(h.spec('wf', v2), f'{name}.no-negative-balance')
            h.prove(ops.equal(o.f['status'], 'CANCELED'), f'{name}.order-is-cancelled')
            # "also after any number of earlier cancellations": cancelling the same order again releases nothing
            out_again = h.method_outcome(o, 'cancel')
            v3 = h.spec('view', w.exchange, 'BTC-USDT', 'BTC')
            h.prove(out_again.ok and ops.equal(v3, v2) is True, f'{name}.a-repeated-cancellation-releases-nothing')
            if side == 'buy' and kind == 'LIMIT':
                h.prove(ops.equal(v2[0], v[0]), 'cancel.mustfail')
    return t


def t_cancel_after_other(side):
    """history of two orders: another order of the same side is submitted first (it shares every mutable field default with this
    one, as peewee hands the same default object to every record), then this one is submitted and cancelled: the cancellation
    releases this order's own reservation - the balances are those after the first submission alone"""
    def t(h):
        w, q, p, v = pre(h, True)
        store, trace = common.trades_store(h)
        q2, p2 = h.real('q2'), h.real('p2')
        h.assume(ops.compare('>', q2, 0))
        h.assume(ops.compare('>', p2, 0))
        other = mk_order(h, side, 'LIMIT', q2, p2)
        o = mk_order(h, side, 'LIMIT', q, p)
        h.cover('cancel-after-other.pre')
        out1 = h.method_outcome(w.exchange, 'on_order_submission', other)
        if not out1.ok:
            return
        v1 = h.spec('view', w.exchange, 'BTC-USDT', 'BTC')
        out2 = h.method_outcome(w.exchange, 'on_order_submission', o)
        if not out2.ok:
            return
        vboth = h.spec('view', w.exchange, 'BTC-USDT', 'BTC')
        # either of the two may be the one that is cancelled
        first = h.branch(h.bool('cancel_the_earlier_one'))
        victim, vq, vp = (other, q2, p2) if first else (o, q, p)
        want = h.spec('m_cancel', vboth, side, 'LIMIT', vq, vp)
        out = h.method_outcome(victim, 'cancel')
        h.prove(out.ok, f'cancel-after-other.{side}.no-exception', {'raised': out.exc})
        if out.ok:
            v2 = h.spec('view', w.exchange, 'BTC-USDT', 'BTC')
            h.prove(ops.equal(v2, want), f'cancel-after-other.{side}.releases-its-own-reservation-whatever-else-was-submitted')
    return t


def t_execute(side, kind):
    def t(h):
        w, q, p, v = pre(h, True)
        store, trace = common.trades_store(h)
        pos = w.position
        if side == 'sell':
            if kind == 'STOP':
                h.assume(ops.compare('>=', v[2], q))
            elif kind == 'LIMIT':
                h.assume(ops.compare('>=', v[3], q))
        # an open position has an entry price (set when it was opened)
        pos.f['entry_price'] = h.real('entry', 0)
        pos.f['current_price'] = p
        over = h.spec('oversell', v, side, q)
        excluded = 'C04-spot-oversell-goes-short' in FINDINGS
        o = mk_order(h, side, kind, q, p)
        h.cover('execute.pre')
        want = h.spec('m_execute', v, side, kind, q, p, w.fee)
        out = h.method_outcome(o, 'execute')
        name = f'execute.{side}.{kind}'
        h.prove(out.ok, f'{name}.no-exception', {'raised': out.exc})
        if not out.ok:
            return
        v2 = h.spec('view', w.exchange, 'BTC-USDT', 'BTC')
        h.prove(ops.equal(v2, want), f'{name}.balances-equal-model')
        h.prove(h.spec('wf', v2), f'{name}.no-negative-balance')
        goal = ops.equal(pos.f['qty'], v2[1])
        noshort = ops.compare('>=', pos.f['qty'], 0)
        if excluded:
            goal = ops.lor(over, goal)
            noshort = ops.lor(over, noshort)
        h.prove(goal, f'{name}.position-size-equals-base-balance')
        h.prove(noshort, f'{name}.no-short-position')
    return t


def t_float_boundary(h):
    """BOUNDED, native: assumption A-1 (floats as reals) is not harmless exactly where a decimal sum meets the balance;
    1024 decimal histories of the real exchange against the exact rational cash-account model (native/C04.py: bounded)"""
    from pyvc import report as R
    res = R.native([os.path.join(HERE, '..', 'native', 'run.py'), 'C04'], {'bounded': 'decimal-grid'})
    if res.get('error'):
        raise RuntimeError(f'bounded native check failed to run: {res}')
    h.cover('float.pre')
    h.prove(not res.get('confirmed'), 'float.decimal-boundary-decisions-equal-the-exact-model',
            {'detail': res.get('detail'), 'cases': res.get('cases')})


def tasks(tier):
    x = dict(spec_mod=SPEC)
    ov = stubs.backtest_mode()
    ts = []
    for side in ('buy', 'sell'):
        for kind in ('MARKET', 'LIMIT', 'STOP'):
            for present in (True, False):
                ts.append(Task(f'submit.{side}.{kind}.{"sums" if present else "nosums"}', t_submit(side, kind, present),
                               extra=x, overrides=dict(ov)))
            if kind != 'MARKET':
                ts.append(Task(f'cancel.{side}.{kind}', t_cancel(side, kind), extra=x, overrides=dict(ov)))
            ts.append(Task(f'execute.{side}.{kind}', t_execute(side, kind), extra=x, overrides=dict(ov)))
    for side in ('buy', 'sell'):
        ts.append(Task(f'cancel-after-other.{side}', t_cancel_after_other(side), extra=x, overrides=dict(ov)))
    import props.C03 as P3
    ts.append(Task('init.spot', P3.t_init('spot'), extra=dict(x, spec_mod=P3.SPEC), overrides=dict(ov)))
    # no short position ever exists: exits routed by the broker are reduce-only on a spot exchange, too (shared with C10); an order
    # that was cancelled has no effect on the balances when the flush reaches it (shared with C05)
    import props.C10 as P10
    import props.C05 as P5
    ts.append(Task('exit.spot', P10.t_exit('long', True, 'spot'), extra=dict(x, spec_mod=P10.SPEC), overrides=dict(ov)))
    ts += [t for t in P5.tasks(tier) if t.id.startswith('execute.CANCELED.')]
    ts.append(Task('float-boundary', t_float_boundary, extra=dict(x, bounded='1024 decimal histories on the grid 0.05..3.3 (native, binary floats vs exact model)')))
    return ts
