"""C10 - smart order routing and declarative exit orders (function-level contracts)."""
import os
from fractions import Fraction
from pyvc.harness import Task, load_spec_module
from pyvc import ops, stubs
from pyvc.values import Obj, Sym, Arr, Vec, Opaque
from pyvc.interp import Builtin
from props import common
import contracts.C10 as K

PROPERTY = 'C10'
LEVEL = 'proof'
HERE = os.path.dirname(os.path.abspath(__file__))
SPEC = load_spec_module(os.path.join(HERE, '..', 'contracts', 'C10.py'), 'contracts.C10')
ST = 'jesse.strategies.Strategy.Strategy'
BR = 'jesse.services.broker.Broker'
SB = 'jesse.exchanges.sandbox.Sandbox.Sandbox'
FUNCTIONS = [f'{ST}._reset', 'jesse.store.state_orders.OrdersState.get_active_exit_orders', 'jesse.store.state_orders.OrdersState.get_exit_orders',
             'jesse.store.state_orders.OrdersState.get_entry_orders', f'{ST}._submit_buy_orders', f'{ST}._submit_sell_orders', f'{ST}._detect_and_handle_entry_and_exit_modifications',
             f'{ST}._on_close_position', f'{ST}._execute_cancel', f'{ST}._check', f'{ST}.liquidate', f'{ST}._get_formatted_order',
             f'{ST}._prepare_stop_loss', f'{ST}._prepare_take_profit', f'{ST}._prepare_buy', f'{ST}._prepare_sell',
             f'{BR}.buy_at', f'{BR}.sell_at', f'{BR}.buy_at_market', f'{BR}.sell_at_market', f'{BR}.start_profit_at',
             f'{BR}.reduce_position_at', f'{BR}.cancel_all_orders', f'{SB}.limit_order', f'{SB}.stop_order', f'{SB}.market_order',
             f'{SB}.cancel_all_orders', 'jesse.helpers.is_price_near', 'jesse.helpers.prepare_qty', 'jesse.helpers.opposite_side',
             'jesse.helpers.type_to_side']
ASSUMPTIONS = [
    'A-1 reals; A-6 backtest mode; A-7 Order is a record; A-9 user hooks interact only through the declared lists',
    'routing compares with the cached strategy price while start_profit_at compares with position.current_price: equality of the two at '
    'routing time is a precondition (true in the simulators)',
    'the whole-history reading of "no stale exit survives" (a bijection between active exit orders and declaration rows after every '
    'step, across arbitrary hooks) is not decided; the per-call cancel-then-resubmit contract is',
    'declarations have two rows (entry) / one or two rows (exits): the loops are element-wise, the row count is the harness bound',
]
TRUSTED = ['numpy.array', 'numpy.array_equal', 'filter']
EXPLANATION = 'routing tables for symbolic prices incl. the 0.015% boundary; cancel-before-resubmit call traces; cancel decision iff'
MANIFEST = {
    'category': 'proof',
    'text': 'helpers.is_price_near, Strategy._submit_buy_orders/_submit_sell_orders and Broker.reduce_position_at are executed '
            'symbolically for symbolic prices (every relation to the current price, the 0.015 % boundary included) with a recording '
            'exchange API: one submission per declared row in order, type = MARKET within the threshold / STOP at a worse entry / LIMIT at '
            'a better entry / LIMIT on the profit side / STOP on the loss side, exact quantity and price, exits reduce-only on the closing '
            'side, OrderNotAllowed iff the position is closed, the trailing raise unreachable. The modification block cancels every active '
            'order tagged with the modified kind before any resubmission and then submits exactly one tagged order per row; an unchanged '
            'declaration produces no call; _on_close_position cancels before the user hook; _check cancels entries iff there are entry '
            'orders, the position is closed and should_cancel_entry() answers yes; Sandbox.cancel_all_orders cancels every active order.',
    'note': 'function-level: the invariant "each active exit order corresponds to a distinct row of the latest declaration" over whole '
            'runs with arbitrary hooks is not decided (A-9); row counts in the harness are 1-2.',
}


class Api:
    """recording exchange API (the broker's only way to submit)"""
    def __init__(self, h):
        self.calls = []
        self.h = h

        def mk(kind):
            def f(i, a, k):
                args = list(a) + [k.get('reduce_only')] if 'reduce_only' in k else list(a)
                o = Obj(None, {'id': f'new{len(self.calls)}', 'submitted_via': None, 'kind': kind}, name='order')
                self.calls.append((kind, args, o))
                return o
            return Builtin(kind, f)
        self.obj = Obj(None, {'market_order': mk('MARKET'), 'limit_order': mk('LIMIT'), 'stop_order': mk('STOP'),
                              'cancel_order': Builtin('cancel_order', lambda i, a, k: self.calls.append(('CANCEL', list(a), None))),
                              'cancel_all_orders': Builtin('cancel_all', lambda i, a, k: self.calls.append(('CANCEL_ALL', list(a), None)))},
                       name='api')


def strategy(h, w, cur, **fields):
    cls = h.repo.find(ST)
    pos = w.positions['BTC-USDT']
    api = Api(h)
    br = Obj(h.repo.find(BR), {'position': pos, 'symbol': 'BTC-USDT', 'timeframe': '1m', 'exchange': 'Sandbox', 'api': api.obj})
    s = Obj(cls, {'id': 'sid', 'name': 'S', 'symbol': 'BTC-USDT', 'exchange': 'Sandbox', 'timeframe': '1m', 'hp': None,
                  'buy': None, '_buy': None, 'sell': None, '_sell': None, 'stop_loss': None, '_stop_loss': None,
                  'take_profit': None, '_take_profit': None, 'position': pos, 'broker': br, '_is_executing': True,
                  '_cached_price': cur, '_is_initiated': True, '_is_handling_updated_order': False, 'increased_count': 0,
                  'reduced_count': 0, 'trades_count': 0, 'vars': {}}, name='strategy')
    s.f.update(fields)
    pos.f['current_price'] = cur
    pos.f['strategy'] = s
    return s, api


def rows2(h, name, n=2):
    rows = []
    for j in range(n):
        q = h.real(f'{name}q{j}')
        p = h.real(f'{name}p{j}')
        h.assume(ops.compare('>', q, 0))
        h.assume(ops.compare('>', p, 0))
        rows.append((q, p))
    return rows


def arr2(rows):
    vs = [Vec([q, p]) for q, p in rows]
    return Arr(len(vs), (lambda k, vs=vs: ops.pick(vs, k)), np=True, cols=2)


def t_near(h):
    p, c = h.real('p', 0), h.real('c', 0)
    h.assume(ops.compare('>', c, 0))
    got = h.call('jesse.helpers.is_price_near', p, c)
    h.prove(ops.equal(ops.truthy(got), h.spec('near', p, c)), 'is_price_near.iff-within-0.015-percent')


def t_entry(side):
    def t(h):
        w = common.futures_world(h, mode=common.any_mode(h))
        cur = h.real('cur')
        h.assume(ops.compare('>', cur, 0))
        rows = rows2(h, 'e')
        s, api = strategy(h, w, cur)
        s.f['_buy' if side == 'buy' else '_sell'] = arr2(rows)
        h.cover('entry.pre')
        out = h.method_outcome(s, '_submit_buy_orders' if side == 'buy' else '_submit_sell_orders')
        h.prove(out.ok, f'entry.{side}.no-exception', {'raised': out.exc})
        if not out.ok:
            return
        h.prove(len(api.calls) == 2, f'entry.{side}.one-submission-per-row')
        if len(api.calls) != 2:
            return
        for j, ((kind, args, o), (q, p)) in enumerate(zip(api.calls, rows)):
            want = h.spec('entry_kind', side, p, cur)
            h.prove(ops.equal(kind, want), f'entry.{side}.type-depends-only-on-price-relation', {'row': j, 'got': kind})
            # (exchange, symbol, qty, price, side, reduce_only)
            ok = len(args) == 6 and args[0] == 'Sandbox' and args[1] == 'BTC-USDT' and args[4] == side and args[5] is False
            h.prove(ok, f'entry.{side}.submitted-as-{side}-not-reduce-only')
            if ok:
                h.prove(ops.equal(args[2], q), f'entry.{side}.exact-quantity')
                wantp = cur if kind == 'MARKET' else p
                h.prove(ops.equal(args[3], wantp), f'entry.{side}.exact-price')
        if side == 'buy':
            h.prove(h.ev(K.MUSTFAIL, kind=api.calls[0][0]), 'entry.mustfail')
    return t


def t_exit(ptype, is_open=True, xkind='futures'):
    def t(h):
        # the kind of exchange is a finite enumeration: exits are reduce-only on the closing side on a spot exchange, too
        w = common.futures_world(h, mode=common.any_mode(h)) if xkind == 'futures' else common.spot_world(h, with_strategy=True)
        pos = w.positions['BTC-USDT']
        cur = h.real('cur')
        h.assume(ops.compare('>', cur, 0))
        if is_open:
            common.open_position(h, pos, ptype)
        s, api = strategy(h, w, cur)
        q, p = h.real('q'), h.real('p')
        h.assume(ops.lnot(ops.equal(q, 0)))
        h.assume(ops.compare('>', p, 0))
        h.cover('exit.pre')
        out = h.method_outcome(s.f['broker'], 'reduce_position_at', q, p, cur)
        if not is_open:
            h.prove((not out.ok) and out.exc == 'OrderNotAllowed', 'exit.rejected-iff-position-closed', {'got': out.exc})
            h.prove(api.calls == [], 'exit.nothing-submitted-when-closed')
            return
        h.prove(out.ok, f'exit.{ptype}.no-exception', {'raised': out.exc})
        if not out.ok:
            return
        h.prove(len(api.calls) == 1, f'exit.{ptype}.exactly-one-submission')
        if len(api.calls) != 1:
            return
        kind, args, o = api.calls[0]
        want = h.spec('exit_kind', ptype, p, cur)
        h.prove(ops.equal(kind, want), f'exit.{ptype}.limit-on-profit-side-stop-on-loss-side-market-when-near', {'got': kind})
        ok = len(args) == 6 and args[4] == K.closing_side(ptype) and args[5] is True
        h.prove(ok, f'exit.{ptype}.reduce-only-on-the-closing-side')
        if ok:
            h.prove(ops.equal(args[2], ops.absval(q)), f'exit.{ptype}.exact-quantity')
            h.prove(ops.equal(args[3], p), f'exit.{ptype}.exact-price')
    return t


def t_on_open(ptype):
    """_on_open_position: every declared stop-loss / take-profit row becomes ONE reduce-only order on the closing side with exactly
    the row's own quantity - also when the row lies on the wrong side of the entry price and is replaced by a market order"""
    def t(h):
        w = common.futures_world(h, mode=common.any_mode(h))
        pos = w.positions['BTC-USDT']
        cur = h.real('cur')
        h.assume(ops.compare('>', cur, 0))
        common.open_position(h, pos, ptype)
        s, api = strategy(h, w, cur)
        sl, tp = rows2(h, 'sl', 2), rows2(h, 'tp', 2)
        s.f['stop_loss'] = s.f['_stop_loss'] = arr2(sl)
        s.f['take_profit'] = s.f['_take_profit'] = arr2(tp)
        ov = h.ctx.cfg.overrides
        ov[f'{ST}._broadcast'] = lambda i, a, k: None
        ov[f'{ST}.on_open_position'] = lambda i, a, k: None
        ov[f'{ST}._detect_and_handle_entry_and_exit_modifications'] = lambda i, a, k: None
        o = Obj(None, {'id': 'entry'}, name='entry order')
        h.cover('on-open.pre')
        out = h.method_outcome(s, '_on_open_position', o)
        h.prove(out.ok, f'on-open.{ptype}.no-exception', {'raised': out.exc})
        if not out.ok:
            return
        subs = [c for c in api.calls if c[0] in ('MARKET', 'LIMIT', 'STOP')]
        h.prove(len(subs) == 4 and len(api.calls) == 4, f'on-open.{ptype}.one-order-per-declared-row', {'calls': [c[0] for c in api.calls]})
        if len(subs) != 4:
            return
        goal = True
        tags = True
        for (kind, args, od), (q, p), tag in zip(subs, sl + tp, ['stop-loss'] * 2 + ['take-profit'] * 2):
            goal = ops.land(goal, ops.equal(ops.absval(args[2]), q))
            goal = ops.land(goal, args[4] == K.closing_side(ptype))
            if kind != 'MARKET':
                # routed by reduce_position_at (exit.*): reduce-only, at the declared price.  A row on the wrong side of the entry price
                # is replaced by a plain market order of the row's quantity (jesse's documented behaviour; not reduce-only)
                goal = ops.land(goal, ops.land(args[5] is True, ops.equal(args[3], p)))
            tags = tags and od.f['submitted_via'] == tag
        h.prove(goal, f'on-open.{ptype}.each-exit-has-its-own-row-quantity-on-the-closing-side-and-resting-ones-their-row-price')
        h.prove(tags, f'on-open.{ptype}.exits-are-tagged-by-their-declaration')
    return t


def t_sandbox(kind):
    def t(h):
        made = []
        trace = []
        orders = Obj(None, {'add_order': Builtin('add_order', lambda i, a, k: trace.append(a[0])), 'to_execute': []})
        store = Obj(None, {'orders': orders})
        h.ctx.cfg.globals['jesse.exchanges.sandbox.Sandbox.store'] = lambda i: store

        def mk(i, a, k):
            o = Obj(None, dict(a[0]), name='Order')
            made.append(o)
            return o
        h.ctx.cfg.overrides['jesse.models.Order.Order'] = mk
        sb = Obj(h.repo.find(SB), {'name': 'Sandbox'})
        q, p = h.real('q', 0), h.real('p', 0)
        h.assume(ops.compare('>', q, 0))
        side = 'sell' if h.branch(h.bool('sell')) else 'buy'
        ro = h.bool('ro')
        out = h.method_outcome(sb, kind.lower() + '_order', 'BTC-USDT', q, p, side, ro)
        ok = out.ok and len(made) == 1 and trace == [made[0]]
        h.prove(ok, f'sandbox.{kind}.creates-and-registers-one-order')
        if ok:
            o = made[0].f
            h.prove(o['type'] == kind and o['side'] == side and o['symbol'] == 'BTC-USDT' and o['exchange'] == 'Sandbox',
                    f'sandbox.{kind}.type-side-symbol')
            h.prove(ops.equal(o['qty'], q if side == 'buy' else ops.neg(q)), f'sandbox.{kind}.qty-is-signed-quantity')
            h.prove(ops.equal(o['price'], p), f'sandbox.{kind}.price-is-the-price-asked')
            h.prove(ops.equal(ops.truthy(o['reduce_only']), ro), f'sandbox.{kind}.reduce-only-passed-through')
    return t


def exit_order(h, via, status='ACTIVE', oid='x'):
    return common.mk_order(h, side='sell', type='STOP', qty=Fraction(-1), price=Fraction(9), symbol='BTC-USDT', exchange='Sandbox',
                           reduce_only=True, status=status, id=oid, submitted_via=via)


def t_modify(kind, changed, nrows, orows=None, near=False):
    """declared stop-loss / take-profit differs from the remembered one -> cancel tagged orders first, then one order per row"""
    def t(h):
        w = common.futures_world(h, mode=common.any_mode(h))
        pos = w.positions['BTC-USDT']
        cur = h.real('cur')
        h.assume(ops.compare('>', cur, 0))
        common.open_position(h, pos, 'long')
        s, api = strategy(h, w, cur)
        pos.f['current_price'] = cur
        tag = 'stop-loss' if kind == 'stop_loss' else 'take-profit'
        olds = [exit_order(h, 'take-profit', 'ACTIVE', 'tp1'), exit_order(h, 'stop-loss', 'ACTIVE', 'sl1'),
                exit_order(h, tag, 'EXECUTED', 'done'), exit_order(h, 'take-profit', 'ACTIVE', 'tp2'),
                exit_order(h, 'stop-loss', 'ACTIVE', 'sl2'), exit_order(h, tag, 'CANCELED', 'gone')]
        h.ctx.cfg.overrides[f'{ST}.active_exit_orders'] = lambda i, a, k: list(olds)
        h.ctx.cfg.overrides[f'{ST}.entry_orders'] = lambda i, a, k: []
        entry = arr2(rows2(h, 'b', 1))
        s.f['buy'] = entry
        s.f['_buy'] = entry
        new = rows2(h, 'n', nrows)
        for q, p in new:
            if near:
                # within 0.015 % of the current price but not equal to it: routed as a MARKET order that still carries the declared price
                h.assume(ops.land(h.spec('near', p, cur), ops.lnot(ops.equal(p, cur))))
                continue
            # declared on its own side of the current price and away from the boundary
            if kind == 'stop_loss':
                h.assume(ops.compare('<', p, ops.arith('*', cur, Fraction('0.99'))))
            else:
                h.assume(ops.compare('>', p, ops.arith('*', cur, Fraction('1.01'))))
        s.f[kind] = [tuple(r) for r in new] if nrows != 1 else tuple(new[0])        # nrows == 0: the declaration is withdrawn ([])
        if changed and orows is not None and orows != nrows:
            # a different number of rows is a modification whatever the rows hold (e.g. two identical rows reduced to one)
            s.f['_' + kind] = arr2(rows2(h, 'o', orows))
        elif changed:
            old = rows2(h, 'o', nrows)
            diff = False
            for (q, p), (q0, p0) in zip(new, old):
                diff = ops.lor(diff, ops.lor(ops.lnot(ops.equal(q, q0)), ops.lnot(ops.equal(p, p0))))
            h.assume(diff)
            s.f['_' + kind] = arr2(old)
        else:
            s.f['_' + kind] = arr2(new)
        h.cover(f'modify.{kind}.pre')
        out = h.method_outcome(s, '_detect_and_handle_entry_and_exit_modifications')
        h.prove(out.ok, f'modify.{kind}.no-exception', {'raised': out.exc})
        if not out.ok:
            return
        kinds = [c[0] for c in api.calls]
        if not changed:
            h.prove(api.calls == [], f'modify.{kind}.unchanged-declaration-submits-and-cancels-nothing', {'calls': kinds})
            return
        want_cancel = ['sl1', 'sl2'] if kind == 'stop_loss' else ['tp1', 'tp2']
        cancels = [c for c in api.calls if c[0] == 'CANCEL']
        h.prove([c[1][-1] for c in cancels] == want_cancel,
                f'modify.{kind}.cancels-exactly-the-active-orders-of-that-kind', {'calls': [(c[0], c[1][-1]) for c in cancels]})
        first_submit = min([j for j, c in enumerate(api.calls) if c[0] != 'CANCEL'] or [len(api.calls)])
        last_cancel = max([j for j, c in enumerate(api.calls) if c[0] == 'CANCEL'] or [-1])
        h.prove(last_cancel < first_submit, f'modify.{kind}.cancels-before-it-resubmits')
        subs = [c for c in api.calls if c[0] != 'CANCEL']
        h.prove(len(subs) == nrows, f'modify.{kind}.one-new-order-per-declared-row', {'calls': kinds})
        if len(subs) == nrows:
            wantk = 'MARKET' if near else ('STOP' if kind == 'stop_loss' else 'LIMIT')
            for (k2, args, o), (q, p) in zip(subs, new):
                h.prove(k2 == wantk and o.f['submitted_via'] == tag, f'modify.{kind}.new-orders-are-{wantk.lower()}-and-tagged')
                h.prove(ops.land(ops.equal(args[2], q), ops.equal(args[3], p)), f'modify.{kind}.new-orders-carry-the-declared-qty-and-price')
        h.prove(h.interp.lib._np_array_equal(h.interp, [s.f['_' + kind], arr2(new)], {}), f'modify.{kind}.remembers-the-new-declaration')
    return t


def t_selectors(ptype, n_orders=3):
    """the order selectors the routing relies on (they are contracted calls in the modify / cancel harnesses):
    entry orders = active, not cancelled orders on the position's side (every submitted order while flat);
    (active) exit orders = (active) not cancelled orders on the closing side, none while flat"""
    def t(h):
        w = common.futures_world(h, mode=common.any_mode(h))
        pos = w.positions['BTC-USDT']
        if ptype != 'close':
            common.open_position(h, pos, ptype)
        cls = h.repo.find('jesse.store.state_orders.OrdersState')
        orders = []
        for j in range(n_orders):
            side = 'buy' if h.branch(h.bool(f'is_buy{j}')) else 'sell'
            st = h.ctx.fresh_str(f'status{j}', among=['ACTIVE', 'EXECUTED', 'CANCELED'])
            orders.append(common.mk_order(h, side=side, type='LIMIT', qty=Fraction(1) if side == 'buy' else Fraction(-1), price=Fraction(10),
                                          symbol='BTC-USDT', exchange='Sandbox', reduce_only=False, status=st, id=f'o{j}'))
        active = []
        for j, o in enumerate(orders):
            inn = h.bool(f'in_active{j}')
            h.assume(ops.implies(ops.equal(o.f['status'], 'ACTIVE'), inn))
            if h.branch(inn):
                active.append(o)
        reg = Obj(cls, {'to_execute': [], 'storage': {'Sandbox-BTC-USDT': list(orders)}, 'active_storage': {'Sandbox-BTC-USDT': active}},
                  name='orders')
        h.cover('selectors.pre')

        def keep(lst, side):
            out = []
            for o in lst:
                if o.f['side'] == side and not h.branch(ops.equal(o.f['status'], 'CANCELED')):
                    out.append(o)
            return out

        def same_list(a, b):
            return isinstance(a, list) and len(a) == len(b) and all(x is y for x, y in zip(a, b))
        pside = {'long': 'buy', 'short': 'sell'}.get(ptype)
        cside = {'long': 'sell', 'short': 'buy'}.get(ptype)
        got = h.method(reg, 'get_active_exit_orders', 'Sandbox', 'BTC-USDT')
        h.prove(same_list(got, keep(active, cside) if cside else []), 'selectors.active-exit-orders-are-the-active-uncancelled-orders-on-the-closing-side')
        got = h.method(reg, 'get_exit_orders', 'Sandbox', 'BTC-USDT')
        h.prove(same_list(got, keep(orders, cside) if cside else []), 'selectors.exit-orders-are-the-uncancelled-orders-on-the-closing-side')
        got = h.method(reg, 'get_entry_orders', 'Sandbox', 'BTC-USDT')
        h.prove(same_list(got, keep(active, pside) if pside else list(orders)),
                'selectors.entry-orders-are-the-active-uncancelled-orders-on-the-position-side-or-all-while-flat')
        # the Strategy properties used by the routing code are thin wrappers over these selectors
        st_ = Obj(h.repo.find(ST), {'exchange': 'Sandbox', 'symbol': 'BTC-USDT', 'position': pos}, name='strategy')
        store = Obj(None, {'orders': reg}, name='store')
        h.ctx.cfg.globals['jesse.strategies.Strategy.store'] = lambda i: store
        h.prove(same_list(h.attr(st_, 'active_exit_orders'), h.method(reg, 'get_active_exit_orders', 'Sandbox', 'BTC-USDT'))
                and same_list(h.attr(st_, 'exit_orders'), h.method(reg, 'get_exit_orders', 'Sandbox', 'BTC-USDT'))
                and same_list(h.attr(st_, 'entry_orders'), h.method(reg, 'get_entry_orders', 'Sandbox', 'BTC-USDT')),
                'selectors.strategy-properties-delegate-to-the-order-registry')
        if ptype == 'long':
            h.prove(same_list(got, list(orders)), 'selectors.mustfail')
    return t


def t_reset(h):
    """Strategy._reset: every declaration AND every remembered snapshot is cleared, so that the next trade's exits are compared
    with nothing (a stale snapshot equal to the new declaration would suppress the submission of the new exit orders)"""
    w = common.futures_world(h, mode=common.any_mode(h))
    cur = h.real('cur', 0)
    s, api = strategy(h, w, cur)
    for name in ('buy', '_buy', 'sell', '_sell', 'stop_loss', '_stop_loss', 'take_profit', '_take_profit'):
        s.f[name] = arr2(rows2(h, name.strip('_')[:2] + ('s' if name.startswith('_') else 'd'), 1))
    s.f['increased_count'], s.f['reduced_count'] = h.int('inc', 0), h.int('red', 0)
    calls = []
    orders = Obj(None, {'reset_trade_orders': Builtin('reset_trade_orders', lambda i, a, k: calls.append(tuple(a)))})
    store = Obj(None, {'orders': orders}, name='store')
    h.ctx.cfg.globals['jesse.strategies.Strategy.store'] = lambda i: store
    out = h.method_outcome(s, '_reset')
    h.prove(out.ok, 'reset.no-exception', {'raised': out.exc})
    if not out.ok:
        return
    left = [n for n in ('buy', '_buy', 'sell', '_sell', 'stop_loss', '_stop_loss', 'take_profit', '_take_profit') if s.f.get(n) is not None]
    h.prove(left == [], 'reset.clears-every-declaration-and-every-remembered-snapshot', {'still_set': left})
    h.prove(len(calls) == 1, 'reset.trade-orders-of-the-route-are-reset-once')


def t_inplace_edit(kind):
    """a declaration held as a numpy array and edited IN PLACE is a modification like any other: the remembered snapshot
    must be a copy, not the declaration object itself"""
    def t(h):
        w = common.futures_world(h, mode=common.any_mode(h))
        pos = w.positions['BTC-USDT']
        cur = h.real('cur')
        h.assume(ops.compare('>', cur, 0))
        common.open_position(h, pos, 'long')
        s, api = strategy(h, w, cur)
        pos.f['current_price'] = cur
        h.ctx.cfg.overrides[f'{ST}.active_exit_orders'] = lambda i, a, k: []
        h.ctx.cfg.overrides[f'{ST}.entry_orders'] = lambda i, a, k: []
        entry = arr2(rows2(h, 'b', 1))
        s.f['buy'] = entry
        s.f['_buy'] = entry
        new = rows2(h, 'n', 1)
        q, p = new[0]
        if kind == 'stop_loss':
            h.assume(ops.compare('<', p, ops.arith('*', cur, Fraction('0.98'))))
        else:
            h.assume(ops.compare('>', p, ops.arith('*', cur, Fraction('1.02'))))
        decl = arr2(new)                       # the strategy holds its declaration as a numpy array
        s.f[kind] = decl
        s.f['_' + kind] = None
        out = h.method_outcome(s, '_detect_and_handle_entry_and_exit_modifications')
        h.prove(out.ok, f'inplace.{kind}.no-exception', {'raised': out.exc})
        if not out.ok:
            return
        n1 = len([c for c in api.calls if c[0] != 'CANCEL'])
        h.prove(n1 == 1, f'inplace.{kind}.first-declaration-is-submitted')
        # in-place edit of the price (still on its own side of the market)
        cur_decl = s.f[kind]
        delta = h.real('delta')
        h.assume(ops.land(ops.compare('>', delta, 0), ops.compare('<', delta, ops.arith('*', cur, Fraction('0.005')))))
        newp = ops.arith('+', p, delta) if kind == 'stop_loss' else ops.arith('-', p, delta)
        h.interp.lib.setitem(h.interp, cur_decl, (0, 1), newp)
        out2 = h.method_outcome(s, '_detect_and_handle_entry_and_exit_modifications')
        h.prove(out2.ok, f'inplace.{kind}.no-exception', {'raised': out2.exc})
        if not out2.ok:
            return
        subs = [c for c in api.calls if c[0] != 'CANCEL']
        h.prove(len(subs) == 2 and ops.equal(subs[-1][1][3], newp) is True or (len(subs) == 2 and h.ctx.prove(ops.equal(subs[-1][1][3], newp), f'inplace.{kind}.resubmitted-at-the-edited-price')),
                f'inplace.{kind}.an-in-place-edit-of-the-declaration-is-detected', {'submissions': len(subs)})
    return t


def t_on_close(h):
    w = common.futures_world(h, mode=common.any_mode(h))
    cur = h.real('cur', 0)
    s, api = strategy(h, w, cur)
    trace = []
    for m in ('_broadcast', '_execute_cancel', 'on_close_position', '_detect_and_handle_entry_and_exit_modifications'):
        h.ctx.cfg.overrides[f'{ST}.{m}'] = (lambda i, a, k, m=m: trace.append(m))
    out = h.method_outcome(s, '_on_close_position', Obj(None, {}))
    h.prove(out.ok and '_execute_cancel' in trace and 'on_close_position' in trace
            and trace.index('_execute_cancel') < trace.index('on_close_position') and trace.count('_execute_cancel') == 1,
            'on-close.cancels-everything-before-the-user-hook', {'trace': trace})


def t_execute_cancel(h):
    w = common.futures_world(h, mode=common.any_mode(h))
    cur = h.real('cur', 0)
    s, api = strategy(h, w, cur)
    trace = []
    orders = Obj(None, {'reset_trade_orders': Builtin('reset_trade_orders', lambda i, a, k: trace.append('reset_trade_orders')),
                        'storage': {'Sandbox-BTC-USDT': [1, 2]}})
    store = Obj(None, {'orders': orders})
    h.ctx.cfg.globals['jesse.strategies.Strategy.store'] = lambda i: store
    h.ctx.cfg.overrides[f'{ST}._broadcast'] = lambda i, a, k: trace.append('broadcast')
    s.f['stop_loss'] = (1, 2)
    s.f['_take_profit'] = (1, 2)
    out = h.method_outcome(s, '_execute_cancel')
    h.prove(out.ok, 'execute-cancel.no-exception', {'raised': out.exc})
    if out.ok:
        h.prove([c[0] for c in api.calls] == ['CANCEL_ALL'], 'execute-cancel.cancels-all-orders-of-the-symbol-once')
        h.prove(all(s.f[k] is None for k in ('buy', '_buy', 'sell', '_sell', 'stop_loss', '_stop_loss', 'take_profit', '_take_profit')),
                'execute-cancel.forgets-all-declarations')
        h.prove(orders.f['storage']['Sandbox-BTC-USDT'] == [], 'execute-cancel.clears-the-order-registry')
    # with an open position it refuses
    common.open_position(h, w.positions['BTC-USDT'], 'long')
    out2 = h.method_outcome(s, '_execute_cancel')
    h.prove(not out2.ok, 'execute-cancel.refuses-while-position-open')


def t_check(n_entries, closed):
    def t(h):
        w = common.futures_world(h, mode=common.any_mode(h))
        cur = h.real('cur', 0)
        s, api = strategy(h, w, cur)
        if not closed:
            common.open_position(h, w.positions['BTC-USDT'], 'long')
        trace = []
        answer = h.bool('should_cancel_entry')
        entries = [exit_order(h, None, 'ACTIVE', f'e{j}') for j in range(n_entries)]
        ov = h.ctx.cfg.overrides
        ov[f'{ST}.entry_orders'] = lambda i, a, k: list(entries)
        ov[f'{ST}.should_cancel_entry'] = lambda i, a, k: answer
        ov[f'{ST}._execute_cancel'] = lambda i, a, k: (trace.append('_execute_cancel'), entries.clear())[0]
        for m in ('_update_position', '_simulate_market_order_execution', '_reset', '_execute_long', '_execute_short'):
            ov[f'{ST}.{m}'] = (lambda i, a, k, m=m: trace.append(m))
        ov[f'{ST}.should_long'] = lambda i, a, k: False
        ov[f'{ST}.should_short'] = lambda i, a, k: False
        out = h.method_outcome(s, '_check')
        h.prove(out.ok, 'check.no-exception', {'raised': out.exc})
        if not out.ok:
            return
        should = ops.land(n_entries > 0 and closed, answer)
        did = trace.count('_execute_cancel')
        if h.branch(should):
            h.prove(did == 1, 'check.cancels-entries-when-resting-closed-and-should-cancel-entry')
        else:
            h.prove(did == 0, 'check.keeps-entries-otherwise')
    return t


def t_cancel_all(h):
    orders = []
    for j in range(3):
        st = h.ctx.fresh_str(f'status{j}', among=['ACTIVE', 'EXECUTED', 'CANCELED'])
        # the order type is a finite enumeration: a still pending MARKET order is cancelled like a resting one
        ty = h.ctx.fresh_str(f'type{j}', among=['LIMIT', 'STOP', 'MARKET'])
        o = common.mk_order(h, side='buy', type=ty, qty=Fraction(1), price=Fraction(10), symbol='BTC-USDT', exchange='Sandbox',
                            reduce_only=False, status=st, id=f'o{j}')
        orders.append((o, st))
    # the real registry class (its selectors run on these lists): storage = every submitted order, active_storage = the active view
    reg = Obj(h.repo.find('jesse.store.state_orders.OrdersState'), {'storage': {'Sandbox-BTC-USDT': [o for o, _ in orders]},
                                                                    'active_storage': {'Sandbox-BTC-USDT': [o for o, _ in orders]}, 'to_execute': []})
    store = Obj(None, {'orders': reg})
    h.ctx.cfg.globals['jesse.exchanges.sandbox.Sandbox.store'] = lambda i: store
    ex = Obj(None, {'on_order_cancellation': Builtin('on_order_cancellation', lambda i, a, k: None)})
    h.ctx.cfg.overrides['jesse.services.selectors.get_exchange'] = lambda i, a, k: ex
    h.ctx.cfg.overrides['jesse.helpers.now_to_timestamp'] = lambda i, a, k: Opaque('now')
    sb = Obj(h.repo.find(SB), {'name': 'Sandbox'})
    out = h.method_outcome(sb, 'cancel_all_orders', 'BTC-USDT')
    h.prove(out.ok, 'cancel-all.no-exception', {'raised': out.exc})
    if out.ok:
        goal = True
        for o, st in orders:
            was_active = ops.equal(st, 'ACTIVE')
            now = o.f['status']
            goal = ops.land(goal, ops.implies(was_active, ops.equal(now, 'CANCELED')))
            goal = ops.land(goal, ops.implies(ops.lnot(was_active), ops.equal(now, st)))
        h.prove(goal, 'cancel-all.every-active-order-cancelled-final-ones-untouched')
        h.prove(reg.f['storage']['Sandbox-BTC-USDT'] == [], 'cancel-all.registry-cleared')
        # the pruning the simulator runs on every candle then empties the active view as well: no order is left that is not final, so
        # nothing may be reported as active any more (the full list being empty is no reason to skip the pruning)
        out2 = h.method_outcome(reg, 'update_active_orders', 'Sandbox', 'BTC-USDT')
        h.prove(out2.ok, 'cancel-all.pruning.no-exception', {'raised': out2.exc})
        if out2.ok:
            left = h.method_outcome(reg, 'get_active_orders', 'Sandbox', 'BTC-USDT')
            h.prove(left.ok and list(left.value) == [], 'cancel-all.the-active-view-is-empty-after-the-next-pruning',
                    {'left': len(left.value) if left.ok else None})


def t_liquidate(profit):
    def t(h):
        w = common.futures_world(h, mode=common.any_mode(h))
        pos = w.positions['BTC-USDT']
        cur = h.real('cur')
        h.assume(ops.compare('>', cur, 0))
        q, e, c = common.open_position(h, pos, 'long')
        s, api = strategy(h, w, cur)
        pos.f['current_price'] = cur
        h.assume(ops.compare('>', cur, e) if profit else ops.compare('<=', cur, e))
        h.ctx.cfg.overrides[f'{ST}.active_exit_orders'] = lambda i, a, k: []
        h.ctx.cfg.overrides[f'{ST}.entry_orders'] = lambda i, a, k: []
        entry = arr2(rows2(h, 'b', 1))
        s.f['buy'] = entry
        s.f['_buy'] = entry
        out = h.method_outcome(s, 'liquidate')
        h.prove(out.ok, 'liquidate.no-exception', {'raised': out.exc})
        out2 = h.method_outcome(s, '_detect_and_handle_entry_and_exit_modifications')
        h.prove(out2.ok, 'liquidate.modifications.no-exception', {'raised': out2.exc})
        if out.ok and out2.ok:
            subs = [c for c in api.calls if c[0] != 'CANCEL']
            ok = len(subs) == 1 and subs[0][0] == 'MARKET' and subs[0][1][4] == 'sell' and subs[0][1][5] is True
            h.prove(ok, 'liquidate.closes-with-one-reduce-only-market-order', {'calls': [c[0] for c in api.calls]})
            if ok:
                h.prove(ops.equal(subs[0][1][2], ops.absval(q)), 'liquidate.for-the-whole-position')
    return t


def tasks(tier):
    x = dict(spec_mod=SPEC)
    ov = stubs.backtest_mode()
    ts = [Task('near', t_near, extra=x, overrides=dict(ov))]
    for side in ('buy', 'sell'):
        ts.append(Task(f'entry.{side}', t_entry(side), extra=x, overrides=dict(ov)))
    for pt in ('long', 'short'):
        ts.append(Task(f'exit.{pt}', t_exit(pt), extra=x, overrides=dict(ov)))
    ts.append(Task('exit.closed', t_exit('long', False), extra=x, overrides=dict(ov)))
    ts.append(Task('exit.spot', t_exit('long', True, 'spot'), extra=x, overrides=dict(ov)))
    for pt in ('long', 'short'):
        ts.append(Task(f'on-open.{pt}', t_on_open(pt), extra=x, overrides=dict(ov)))
    for kind in ('LIMIT', 'STOP'):
        ts.append(Task(f'sandbox.{kind}', t_sandbox(kind), extra=x, overrides=dict(ov)))
    for kind in ('stop_loss', 'take_profit'):
        for changed in (True, False):
            for n in (1, 2):
                ts.append(Task(f'modify.{kind}.{"changed" if changed else "same"}.{n}', t_modify(kind, changed, n), extra=x,
                               overrides=dict(ov)))
        for n, o in ((1, 2), (2, 1), (2, 3)):
            ts.append(Task(f'modify.{kind}.rows{o}to{n}', t_modify(kind, True, n, o), extra=x, overrides=dict(ov)))
        ts.append(Task(f'modify.{kind}.rows1to0', t_modify(kind, True, 0, 1), extra=x, overrides=dict(ov)))
        ts.append(Task(f'modify.{kind}.near', t_modify(kind, True, 1, None, near=True), extra=x, overrides=dict(ov)))
    for pt in ('long', 'short', 'close'):
        nsel = 3 if tier == 'quick' else 4
        ts.append(Task(f'selectors.{pt}', t_selectors(pt, nsel), extra=dict(x, bounded=f'registry of N={nsel} orders (side and status symbolic)'), overrides=dict(ov),
                       max_paths=400000))
    ts.append(Task('reset', t_reset, extra=x, overrides=dict(ov)))
    for kind in ('stop_loss', 'take_profit'):
        ts.append(Task(f'inplace.{kind}', t_inplace_edit(kind), extra=x, overrides=dict(ov)))
    import props.C07 as P7
    ts.append(Task('strategy-reads', P7.t_strategy_reads, extra=x))
    ts.append(Task('on-close', t_on_close, extra=x, overrides=dict(ov)))
    ts.append(Task('execute-cancel', t_execute_cancel, extra=x, overrides=dict(ov)))
    for n in (0, 1):
        for closed in (True, False):
            ts.append(Task(f'check.entries{n}.{"closed" if closed else "open"}', t_check(n, closed), extra=x, overrides=dict(ov)))
    ts.append(Task('cancel-all', t_cancel_all, extra=x, overrides=dict(ov)))
    for profit in (True, False):
        ts.append(Task(f'liquidate.{"profit" if profit else "loss"}', t_liquidate(profit), extra=x, overrides=dict(ov)))
    return ts
