"""C11 - research.backtest is a pure, repeatable function of its arguments (named process-global state)."""
import ast
import json
import os
from fractions import Fraction
from pyvc.harness import Task, load_spec_module
from pyvc import ops, stubs
from pyvc.values import Obj, Sym, Arr, Vec, Opaque
from pyvc.interp import Builtin
from pyvc import lib
import contracts.C11 as K

PROPERTY = 'C11'
LEVEL = 'proof'
HERE = os.path.dirname(os.path.abspath(__file__))
SPEC = load_spec_module(os.path.join(HERE, '..', 'contracts', 'C11.py'), 'contracts.C11')
FUNCTIONS = ['jesse.research.backtest._isolated_backtest', 'jesse.research.backtest._format_config', 'jesse.config.set_config',
             'jesse.config.reset_config', 'jesse.helpers.get_config', 'jesse.store.StoreClass.reset', 'jesse.services.api.API.__init__',
             'jesse.services.api.API.initiate_drivers', 'jesse.services.api.API.market_order', 'jesse.routes.RouterClass.initiate',
             'jesse.routes.RouterClass.set_data_candles']
ASSUMPTIONS = [
    'production mode (jh.is_unit_testing() == False): the code path pytest disables; backtest mode (A-6)',
    'environment variables that shadow configuration keys are not set (os.environ.get(...) is None)',
    '"for every sequence of earlier calls, including aborted ones" is rendered as: the prologue establishes the session-relevant '
    'global state from the arguments for an ARBITRARY pre-state (symbolic memo / config / driver table)',
    'completeness of the global-state inventory (helpers.CACHED_CONFIG, config, router, store.*, api.drivers) is assumed, not proved; '
    'equality of the returned dict between two real runs is used only in the native replays',
]
TRUSTED = ['functools.reduce', 'copy.deepcopy (fresh, equal, disjoint)', 'os.environ.get']
EXPLANATION = 'memo coherence, driver coherence, initialisation frame of the prologue for an arbitrary pre-state, arguments unmodified'
MANIFEST = {
    'category': 'proof',
    'text': 'helpers.get_config is proved to return the value of the dotted key in the current configuration given memo coherence, and '
            'config.set_config / reset_config are proved to keep the memo coherent and to install fee / type / balance / leverage / '
            'warm-up / logging from the arguments for an arbitrary previous configuration. StoreClass.reset is proved to replace every '
            'state attribute (shared vars included) by a fresh object. _isolated_backtest is executed with recording stubs: the '
            'prologue runs set_config, router.initiate, validate_routes, init_storage before the simulator, the epilogue resets config '
            'and store, the simulator only receives deep copies and the argument objects are not written. API.market_order is proved '
            'against the driver table.',
    'note': 'recorded finding: the exchange driver table of services.api.api is built once per process, so a later session on another '
            'exchange name submits no orders. Inventory of global state assumed complete; production mode only.',
}
FINDINGS = set(json.loads(os.environ.get('PYVC_FINDINGS', '[]')))


def _libs():
    lib.ext_call('math.floor')
    lib._EXT['os.environ.get'] = lambda i, a, k: None

    def _reduce(i, a, k):
        f, seq = a[0], a[1]
        items = i.iterate(seq)
        acc = a[2] if len(a) > 2 else items.pop(0)
        for x in items:
            acc = i.call(f, [acc, x])
        return acc
    lib._EXT['functools.reduce'] = _reduce


def mk_config(h, name='Sandbox'):
    """an arbitrary previous configuration for exchange `name` (what an earlier session left behind)"""
    return {'env': {'caching': {'driver': 'pickle'},
                    'logging': {'order_submission': h.bool('old_log')},
                    'exchanges': {name: {'fee': h.real('old_fee', 0), 'type': 'futures', 'futures_leverage_mode': 'cross',
                                         'futures_leverage': h.int('old_lev', 1), 'balance': h.real('old_balance', 0)}},
                    'optimization': {'ratio': 'sharpe'},
                    'data': {'warmup_candles_num': h.int('old_warmup', 0), 'generate_candles_from_1m': False, 'persistency': True}},
            'app': {'considering_symbols': [], 'trading_symbols': [], 'considering_timeframes': [], 'trading_timeframes': [],
                    'considering_exchanges': [], 'trading_exchanges': [], 'considering_candles': [], 'live_drivers': {},
                    'trading_mode': '', 'debug_mode': False, 'is_unit_testing': False}}


KEYS = ['env.exchanges.Sandbox.fee', 'env.exchanges.Sandbox.futures_leverage', 'env.exchanges.Sandbox.futures_leverage_mode',
        'env.exchanges.Sandbox.balance', 'env.data.warmup_candles_num', 'env.logging.order_submission']


def coherent_memo(h, config):
    """the memo an earlier session left: an arbitrary subset of the keys, each holding the value it had then"""
    memo = {}
    for k in KEYS:
        if h.branch(h.bool('cached_' + k.split('.')[-1])):
            memo[k] = h.spec('lookup', config, k, None)
    return memo


def t_get_config(h):
    _libs()
    config = mk_config(h)
    memo = coherent_memo(h, config)
    h.ctx.cfg.globals['jesse.config.config'] = lambda i: config
    h.ctx.cfg.globals['jesse.helpers.CACHED_CONFIG'] = lambda i: memo
    h.cover('get_config.pre')
    for k in KEYS[:3] + ['env.data.missing_key']:
        out = h.outcome('jesse.helpers.get_config', k, 7)
        want = h.spec('lookup', config, k, 7)
        h.prove(out.ok and ops.equal(out.value, want) is not False, 'get_config.no-exception')
        if out.ok:
            h.prove(ops.equal(out.value, want), 'get_config.returns-the-configured-value-given-a-coherent-memo')
    h.prove(ops.equal(h.call('jesse.helpers.get_config', KEYS[0], 7), 7), 'get_config.mustfail')


def new_conf(h, name='Sandbox'):
    return {'exchanges': {name: {'balance': h.real('balance', 0), 'fee': h.real('fee', 0), 'type': 'futures', 'name': name,
                                 'futures_leverage': h.int('leverage', 1), 'futures_leverage_mode': 'isolated'}},
            'logging': {'order_submission': True}, 'warm_up_candles': h.int('warmup', 0)}


def t_set_config(which):
    """set_config / reset_config keep the memo coherent and install the arguments (arbitrary previous configuration)"""
    def t(h):
        _libs()
        config = mk_config(h)
        memo = coherent_memo(h, config)
        h.ctx.cfg.globals['jesse.config.config'] = lambda i: config
        h.ctx.cfg.globals['jesse.config.backup_config'] = lambda i: {'env': config['env'], 'app': config['app']}
        h.ctx.cfg.globals['jesse.helpers.CACHED_CONFIG'] = lambda i: memo
        conf = new_conf(h)
        h.cover(f'{which}.pre')
        if which == 'set_config':
            out = h.outcome('jesse.config.set_config', conf)
        else:
            out = h.outcome('jesse.config.reset_config')
        h.prove(out.ok, f'{which}.no-exception', {'raised': out.exc})
        if not out.ok:
            return
        cur = h.ctx.globals.get('jesse.config.config', config)
        if which == 'set_config':
            ex = cur['env']['exchanges']['Sandbox']
            e = conf['exchanges']['Sandbox']
            h.prove(ops.land(ops.equal(ex['fee'], e['fee']), ops.equal(ex['balance'], e['balance'])),
                    'set_config.installs-fee-and-balance-from-the-arguments')
            h.prove(ops.land(ops.equal(ex.get('futures_leverage'), e['futures_leverage']), ex.get('futures_leverage_mode') == 'isolated')
                    and ex['type'] == 'futures', 'set_config.installs-type-leverage-and-mode-from-the-arguments')
            h.prove(ops.equal(cur['env']['data']['warmup_candles_num'], conf['warm_up_candles']),
                    'set_config.installs-warm-up-size-from-the-arguments')
            h.prove(cur['env']['logging'] is conf['logging'] or ops.equal(cur['env']['logging'], conf['logging']) is True,
                    'set_config.installs-logging-from-the-arguments')
        # memo coherence afterwards: every later get_config sees the current configuration
        memo2 = h.ctx.globals.get('jesse.helpers.CACHED_CONFIG', memo)
        goal = True
        for k in KEYS:
            got = h.call('jesse.helpers.get_config', k, None)
            goal = ops.land(goal, ops.equal(got, h.spec('lookup', cur, k, None)))
        h.prove(goal, f'{which}.later-lookups-see-the-current-configuration', {'clause': 'forall k: get_config(k) == lookup(config, k)'})
    return t


def t_store_reset(h):
    cls = h.repo.find('jesse.store.StoreClass')
    made = []
    for n in ('AppState', 'OrdersState', 'ClosedTrades', 'LogsState', 'ExchangesState', 'CandlesState', 'PositionsState', 'TickersState',
              'TradesState', 'OrderbookState'):
        mod = {'AppState': 'state_app', 'OrdersState': 'state_orders', 'ClosedTrades': 'state_completed_trades', 'LogsState': 'state_logs',
               'ExchangesState': 'state_exchanges', 'CandlesState': 'state_candles', 'PositionsState': 'state_positions',
               'TickersState': 'state_tickers', 'TradesState': 'state_trades', 'OrderbookState': 'state_orderbook'}[n]
        h.ctx.cfg.overrides[f'jesse.store.{mod}.{n}'] = (lambda i, a, k, n=n: (made.append(n), Obj(None, {}, name='fresh ' + n))[1])
    calls = []
    h.ctx.cfg.overrides['jesse.store.install_routes'] = lambda i, a, k: calls.append('install_routes')
    old = {k: Obj(None, {'leftover': True}, name='old ' + k) for k in K.STORE_STATE if k != 'vars'}
    old['vars'] = {'leftover': 1}
    st = Obj(cls, dict(old), name='store')
    out = h.method_outcome(st, 'reset')
    h.prove(out.ok, 'store-reset.no-exception', {'raised': out.exc})
    if out.ok:
        stale = [k for k in K.STORE_STATE if st.f.get(k) is old[k]]
        h.prove(stale == [], 'store-reset.every-state-attribute-is-replaced-by-a-fresh-object', {'not_reset': stale})
        h.prove(calls == ['install_routes'], 'store-reset.routes-reinstalled-in-production-mode')


STATE_CLASSES = {'AppState': 'state_app', 'OrdersState': 'state_orders', 'ClosedTrades': 'state_completed_trades', 'LogsState': 'state_logs',
                 'ExchangesState': 'state_exchanges', 'CandlesState': 'state_candles', 'PositionsState': 'state_positions',
                 'TickersState': 'state_tickers', 'TradesState': 'state_trades', 'OrderbookState': 'state_orderbook'}


def t_state_classes(h):
    """mechanical: a state object created by store.reset() is fresh only if its class keeps no mutable object at class level
    (a list / dict / set / call result in the class body is shared by every instance, i.e. by every session of the process)"""
    bad = []
    for n, m in sorted(STATE_CLASSES.items()):
        c = h.repo.find(f'jesse.store.{m}.{n}')
        for st in c.node.body:
            if isinstance(st, (ast.Assign, ast.AnnAssign)) and st.value is not None and not isinstance(st.value, ast.Constant):
                tg = st.targets[0] if isinstance(st, ast.Assign) else st.target
                bad.append(f'{n}.{ast.unparse(tg)}')
    h.prove(bad == [], 'store-reset.state-classes-keep-no-mutable-object-at-class-level', {'class_level_objects': bad})
    # the other classes whose instances live for one session: a list / dict / set in the class body is one object shared by every
    # instance, i.e. by every session of the process (peewee field declarations are records, their shared defaults are modelled: A-16)
    bad2 = []
    for q in ('jesse.strategies.Strategy.Strategy', 'jesse.models.Position.Position', 'jesse.models.Route.Route', 'jesse.services.broker.Broker',
              'jesse.models.Exchange.Exchange', 'jesse.models.FuturesExchange.FuturesExchange', 'jesse.models.SpotExchange.SpotExchange',
              'jesse.exchanges.sandbox.Sandbox.Sandbox', 'jesse.routes.RouterClass'):
        try:
            c = h.repo.find(q)
        except KeyError:
            continue
        for st in c.node.body:
            if isinstance(st, (ast.Assign, ast.AnnAssign)) and st.value is not None:
                v = st.value
                mutable = isinstance(v, (ast.Dict, ast.List, ast.Set, ast.ListComp, ast.DictComp, ast.SetComp)) or \
                    (isinstance(v, ast.Call) and ast.unparse(v.func) in ('dict', 'list', 'set', 'defaultdict', 'collections.defaultdict', 'deque'))
                if mutable:
                    tg = st.targets[0] if isinstance(st, ast.Assign) else st.target
                    bad2.append(f'{q.split(".")[-1]}.{ast.unparse(tg)}')
    h.prove(bad2 == [], 'store-reset.session-classes-keep-no-mutable-container-at-class-level', {'class_level_containers': bad2})


SESSION_PATH = ['jesse/modes/backtest_mode.py', 'jesse/research/backtest.py', 'jesse/research/__init__.py', 'jesse/helpers.py', 'jesse/config.py',
                'jesse/routes/__init__.py', 'jesse/strategies/Strategy.py', 'jesse/exchanges/sandbox/Sandbox.py', 'jesse/exchanges/exchange.py',
                'jesse/libs/dynamic_numpy_array/__init__.py', 'jesse/utils.py', 'jesse/store/*.py', 'jesse/services/*.py', 'jesse/models/*.py',
                'jesse/enums/*.py']


def _immutable(v):
    if isinstance(v, ast.Constant):
        return True
    if isinstance(v, ast.Tuple):
        return all(_immutable(e) for e in v.elts)
    if isinstance(v, ast.UnaryOp):
        return _immutable(v.operand)
    if isinstance(v, ast.BinOp):
        return _immutable(v.left) and _immutable(v.right)
    return False


def t_module_state(h):
    """mechanical inventory: every module-level mutable object of the modules a session runs through is either listed in
    contracts/C11.MODULE_STATE (with the obligation that keeps it from leaking between sessions) or never written by any function of
    its module.  An unknown object that IS written (a memo, a lazily filled list ...) survives an aborted session: the task then
    leaves the verifier's reach (undecided) and the native session sequences stand in."""
    import glob
    root = h.repo.root
    unknown = []
    for pat in SESSION_PATH:
        for path in sorted(glob.glob(os.path.join(root, pat))):
            mod = os.path.relpath(path, root)[:-3].replace(os.sep, '.')
            if mod.endswith('.__init__'):
                mod = mod[:-9]
            try:
                tree = ast.parse(open(path, encoding='utf-8').read())
            except SyntaxError:
                continue
            names = []

            def visit(body):
                for st in body:
                    if isinstance(st, (ast.If, ast.Try)):
                        visit([x for x in ast.iter_child_nodes(st) if isinstance(x, ast.stmt)])
                        for hd in getattr(st, 'handlers', []):
                            visit(hd.body)
                    if isinstance(st, (ast.Assign, ast.AnnAssign)) and st.value is not None:
                        tg = st.targets[0] if isinstance(st, ast.Assign) else st.target
                        if isinstance(tg, ast.Name):
                            (names if not _immutable(st.value) else rebound).append(tg.id)
            rebound = []
            visit(tree.body)
            # a module-level name with an immutable initial value is state as soon as a function rebinds it through `global`
            for nm in rebound:
                if f'{mod}.{nm}' in K.MODULE_STATE:
                    continue
                for fn in ast.walk(tree):
                    if isinstance(fn, (ast.FunctionDef, ast.AsyncFunctionDef)) and any(isinstance(n, ast.Global) and nm in n.names for n in ast.walk(fn)):
                        unknown.append(f'{mod}.{nm} (rebound through global in {fn.name})')
                        break
            for nm in names:
                if f'{mod}.{nm}' in K.MODULE_STATE:
                    continue
                written = False
                for fn in ast.walk(tree):
                    if not isinstance(fn, (ast.FunctionDef, ast.AsyncFunctionDef)):
                        continue
                    for n in ast.walk(fn):
                        if isinstance(n, ast.Call) and isinstance(n.func, ast.Attribute) and n.func.attr in K.MUTATORS \
                                and isinstance(n.func.value, ast.Name) and n.func.value.id == nm:
                            written = True
                        if isinstance(n, ast.Subscript) and isinstance(n.ctx, (ast.Store, ast.Del)) and isinstance(n.value, ast.Name) and n.value.id == nm:
                            written = True
                        if isinstance(n, ast.Global) and nm in n.names:
                            written = True
                        if isinstance(n, ast.AugAssign) and isinstance(n.target, ast.Name) and n.target.id == nm:
                            written = True
                if written:
                    unknown.append(f'{mod}.{nm}')
    # memoised functions: a result cache is module-level state, too
    for pat in SESSION_PATH:
        for path in sorted(glob.glob(os.path.join(root, pat))):
            mod = os.path.relpath(path, root)[:-3].replace(os.sep, '.')
            if mod.endswith('.__init__'):
                mod = mod[:-9]
            try:
                tree = ast.parse(open(path, encoding='utf-8').read())
            except SyntaxError:
                continue
            for fn in ast.walk(tree):
                if isinstance(fn, (ast.FunctionDef, ast.AsyncFunctionDef)):
                    for d in fn.decorator_list:
                        txt = ast.unparse(d)
                        if any(x in txt for x in ('lru_cache', 'cache', 'memo')) and f'{mod}.{fn.name}' not in K.MEMOISED:
                            unknown.append(f'{mod}.{fn.name} (@{txt})')
    if unknown:
        from pyvc.values import OutOfSubset
        raise OutOfSubset(f'module-level state outside the inventory of contracts/C11.py is written on the session path: {unknown}')
    h.prove(True, 'module-state.every-written-module-level-object-on-the-session-path-is-in-the-inventory', {'inventory': len(K.MODULE_STATE)})


RANDOM_ATTRS = ('id', 'trade_id', 'session_id')


def t_random_ids(h):
    """the ids jesse gives to orders, positions and trades are random per session (jh.generate_unique_id): on the session path they may be
    copied and compared for equality, but never order anything - no sort / min / max key and no <, <=, >, >= comparison reads one"""
    import glob
    root = h.repo.root
    bad = []

    def reads_id(node):
        return [n for n in ast.walk(node) if isinstance(n, ast.Attribute) and n.attr in RANDOM_ATTRS and isinstance(n.ctx, ast.Load)]
    n_sites = 0
    for pat in SESSION_PATH:
        for path in sorted(glob.glob(os.path.join(root, pat))):
            try:
                tree = ast.parse(open(path, encoding='utf-8').read())
            except SyntaxError:
                continue
            rel = os.path.relpath(path, root)
            keyfns = {}
            for fn in ast.walk(tree):
                if isinstance(fn, (ast.FunctionDef, ast.Lambda)):
                    keyfns[getattr(fn, 'name', None)] = fn
            for n in ast.walk(tree):
                if isinstance(n, ast.Call):
                    nm = n.func.id if isinstance(n.func, ast.Name) else n.func.attr if isinstance(n.func, ast.Attribute) else None
                    if nm in ('sorted', 'sort', 'min', 'max', 'argsort', 'heappush', 'nsmallest', 'nlargest', 'sort_by', 'order_by'):
                        n_sites += 1
                        parts = list(n.args[1:] if nm == 'sorted' else n.args) + [k.value for k in n.keywords]
                        for part in parts:
                            if isinstance(part, ast.Name) and part.id in keyfns:
                                part = keyfns[part.id]
                            if reads_id(part):
                                bad.append(f'{rel}:{n.lineno} {nm}(...) reads a random id in its key')
                if isinstance(n, ast.Compare) and any(isinstance(o, (ast.Lt, ast.LtE, ast.Gt, ast.GtE)) for o in n.ops):
                    n_sites += 1
                    if any(reads_id(x) for x in [n.left] + n.comparators):
                        bad.append(f'{rel}:{n.lineno} ordering comparison on a random id')
    h.prove(n_sites > 0, 'random-ids.scan-saw-ordering-sites', {'sites': n_sites})
    h.prove(not bad, 'random-ids.session-random-ids-never-order-anything-on-the-session-path', {'sites': bad, 'scanned': n_sites})


def t_router(h):
    """two sessions with the same route arguments: RouterClass.initiate installs them and leaves the caller's lists alone"""
    calls = []
    store = Obj(None, {'reset': Builtin('store.reset', lambda i, a, k: calls.append('store.reset'))}, name='store')
    h.ctx.cfg.globals['jesse.store.store'] = lambda i: store
    h.ctx.cfg.overrides['jesse.models.Route.Route'] = lambda i, a, k: Obj(None, {'exchange': a[0], 'symbol': a[1], 'timeframe': a[2], 'strategy_name': a[3]}, name='route')
    S = Obj(None, {}, name='StrategyClass')
    routes = [{'exchange': 'Sandbox', 'strategy': S, 'symbol': 'BTC-USDT', 'timeframe': '5m'}]
    data_routes = [{'exchange': 'Sandbox', 'symbol': 'BTC-USDT', 'timeframe': '15m'}, {'exchange': 'Sandbox', 'symbol': 'ETH-USDT', 'timeframe': '1h'}]
    snap = ([dict(r) for r in routes], [dict(r) for r in data_routes])
    r = h.interp.instantiate(h.repo.find('jesse.routes.RouterClass'), [], {})
    for session in (1, 2):
        out = h.method_outcome(r, 'initiate', routes, data_routes)
        h.prove(out.ok, 'router.no-exception', {'raised': out.exc, 'session': session})
        if not out.ok:
            return
        same = [dict(x) for x in routes] == snap[0] and [dict(x) for x in data_routes] == snap[1]
        h.prove(same, 'router.route-arguments-are-left-unmodified-in-every-session', {'session': session, 'data_routes_now': len(data_routes)})
        inst = len(r.f['routes']) == 1 and [dict(x) for x in r.f['data_candles']] == snap[1]
        h.prove(inst, 'router.installs-exactly-the-routes-of-the-arguments', {'session': session})


def t_prologue(with_warmup):
    def t(h):
        calls = []

        def stub(name, ret=None):
            return lambda i, a, k: (calls.append((name, tuple(a))), ret)[1]
        ov = h.ctx.cfg.overrides
        ov['jesse.config.set_config'] = stub('set_config')
        ov['jesse.config.reset_config'] = stub('reset_config')
        ov['jesse.services.validators.validate_routes'] = stub('validate_routes')
        ov['jesse.services.candle.inject_warmup_candles_to_store'] = stub('inject_warmup')
        # the simulator may report more than this call asked for (it does when an earlier session left the debug mode on)
        ov['jesse.modes.backtest_mode.simulator'] = lambda i, a, k: (calls.append(('simulator', tuple(a), dict(k))), {'metrics': {'total': 0}, 'logs': 'storage/logs/some-session.txt', 'tradingview': 'tv', 'csv': 'c', 'json': 'j', 'equity_curve': 'e', 'hyperparameters': 'h'})[1]
        router = Obj(None, {'initiate': Builtin('router.initiate', stub('router.initiate'))}, name='router')
        cstate = Obj(None, {'init_storage': Builtin('init_storage', stub('init_storage'))})
        store = Obj(None, {'candles': cstate, 'reset': Builtin('store.reset', stub('store.reset'))}, name='store')
        jc = {'app': {'considering_candles': (('Sandbox', 'BTC-USDT'),), 'trading_mode': 'something-else', 'considering_timeframes': ('1m', '5m', '15m'),
                      'considering_symbols': ('BTC-USDT',), 'trading_timeframes': ('5m',), 'trading_symbols': ('BTC-USDT',)}}
        h.ctx.cfg.globals['jesse.routes.router'] = lambda i: router
        h.ctx.cfg.globals['jesse.store.store'] = lambda i: store
        h.ctx.cfg.globals['jesse.config.config'] = lambda i: jc
        a = h.ctx.fresh_arr('candles', np=True, cols=6)
        h.assume(ops.compare('>=', a.n, 2))
        h.assume(ops.equal(ops.arith('-', a.fn(1).e[0], a.fn(0).e[0]), 60000))
        wa = h.ctx.fresh_arr('warmup', np=True, cols=6)
        candles = {'Sandbox-BTC-USDT': {'exchange': 'Sandbox', 'symbol': 'BTC-USDT', 'candles': a}}
        # a second candle set of its own (possibly greater) length: each set reaches the simulator as it was passed
        b2 = h.ctx.fresh_arr('candles2', np=True, cols=6)
        h.assume(ops.compare('>=', b2.n, a.n))
        h.assume(ops.equal(ops.arith('-', b2.fn(1).e[0], b2.fn(0).e[0]), 60000))
        candles['Sandbox-ETH-USDT'] = {'exchange': 'Sandbox', 'symbol': 'ETH-USDT', 'candles': b2}
        warm = {'Sandbox-BTC-USDT': {'exchange': 'Sandbox', 'symbol': 'BTC-USDT', 'candles': wa}} if with_warmup else None
        cfg = {'starting_balance': h.real('balance', 0), 'fee': h.real('fee', 0), 'type': 'futures', 'futures_leverage': h.int('lev', 1),
               'futures_leverage_mode': 'cross', 'exchange': 'Sandbox', 'warm_up_candles': h.int('warm', 0)}
        routes = [{'exchange': 'Sandbox', 'strategy': 'S', 'symbol': 'BTC-USDT', 'timeframe': '5m'}]
        data_routes = [{'exchange': 'Sandbox', 'symbol': 'BTC-USDT', 'timeframe': '15m'}]
        snap = (dict(cfg), [dict(r) for r in routes], [dict(r) for r in data_routes], id(a), a.fn, dict(candles['Sandbox-BTC-USDT']))
        fast = h.bool('fast_mode')
        out = h.outcome('jesse.research.backtest._isolated_backtest', cfg, routes, data_routes, candles, warm, True, None,
                        fast_mode=fast)
        h.prove(out.ok, 'prologue.no-exception', {'raised': out.exc})
        if not out.ok:
            return
        names = [c[0] for c in calls]
        isim = names.index('simulator') if 'simulator' in names else -1
        h.prove(isim >= 0 and names.count('simulator') == 1, 'prologue.simulator-runs-once')
        if isim < 0:
            return
        before = [n for n in names[:isim] if n != 'inject_warmup']
        h.prove(before == K.PROLOGUE, 'prologue.session-state-is-established-from-the-arguments-before-simulating', {'calls': names})
        h.prove(names[isim + 1:] == K.EPILOGUE, 'prologue.config-and-store-are-reset-afterwards', {'calls': names})
        h.prove(jc['app']['trading_mode'] == 'backtest', 'prologue.trading-mode-set')
        r = out.value
        h.prove(isinstance(r, dict) and sorted(r) == ['logs', 'metrics'] and r['logs'] is None,
                'prologue.outputs-that-were-not-requested-are-not-reported', {'keys': sorted(r) if isinstance(r, dict) else None})
        sc = calls[names.index('set_config')][1][0]
        e = sc['exchanges']['Sandbox']
        h.prove(ops.land(ops.land(ops.equal(e['balance'], cfg['starting_balance']), ops.equal(e['fee'], cfg['fee'])),
                         ops.land(ops.equal(e['futures_leverage'], cfg['futures_leverage']), ops.equal(sc['warm_up_candles'], cfg['warm_up_candles'])))
                and e['type'] == 'futures' and e['name'] == 'Sandbox' and e['futures_leverage_mode'] == 'cross',
                'prologue.configuration-passed-on-is-a-function-of-the-config-argument')
        ri = calls[names.index('router.initiate')][1]
        h.prove(ri[0] is routes and ri[1] is data_routes, 'prologue.routes-passed-on-are-the-route-arguments')
        simargs = calls[isim][1]
        got = simargs[0]
        fresh = got is not candles and got['Sandbox-BTC-USDT'] is not candles['Sandbox-BTC-USDT'] \
            and got['Sandbox-BTC-USDT']['candles'] is not a
        h.prove(fresh, 'prologue.simulator-receives-a-deep-copy-of-the-candles')
        h.prove(h.interp.lib._np_array_equal(h.interp, [got['Sandbox-BTC-USDT']['candles'], a], {}), 'prologue.the-copy-equals-the-input')
        h.prove('Sandbox-ETH-USDT' in got and h.interp.lib._np_array_equal(h.interp, [got['Sandbox-ETH-USDT']['candles'], b2], {}),
                'prologue.every-candle-set-is-handed-on-as-it-was-passed')
        h.prove(ops.equal(calls[isim][2].get('fast_mode'), fast), 'prologue.simulator-mode-is-the-fast-mode-argument')
        same = (cfg == snap[0] and [dict(r) for r in routes] == snap[1] and [dict(r) for r in data_routes] == snap[2]
                and a.fn is snap[4] and candles['Sandbox-BTC-USDT'] == snap[5])
        h.prove(same, 'prologue.arguments-are-left-unmodified')
        inj = [c for c in calls if c[0] == 'inject_warmup']
        if with_warmup:
            h.prove(len(inj) == 1 and inj[0][1][0] is not wa and names.index('inject_warmup') < isim,
                    'prologue.warm-up-candles-injected-from-a-copy-before-simulating')
            # no look-ahead through the prologue (shared with C01): what is stored before the simulation starts is the warm-up
            # argument, never a row of the candles that are about to be simulated
            h.prove(len(inj) == 1 and h.interp.lib._np_array_equal(h.interp, [inj[0][1][0], wa], {}),
                    'prologue.only-the-warm-up-argument-is-stored-before-the-simulation')
        else:
            h.prove(inj == [], 'prologue.only-the-warm-up-argument-is-stored-before-the-simulation', {'injected_calls': len(inj)})
    return t


def t_result_fresh(h):
    """every call returns freshly built result objects: a value handed to one caller is not the value handed to the next
    (a shared module-level dict would let one caller's edits show up in another call's result)"""
    ov = h.ctx.cfg.overrides
    nop = lambda i, a, k: None
    for q in ('jesse.config.set_config', 'jesse.config.reset_config', 'jesse.services.validators.validate_routes',
              'jesse.services.candle.inject_warmup_candles_to_store'):
        ov[q] = nop
    ov['jesse.modes.backtest_mode.simulator'] = lambda i, a, k: {'metrics': None}
    router = Obj(None, {'initiate': Builtin('router.initiate', nop)}, name='router')
    cstate = Obj(None, {'init_storage': Builtin('init_storage', nop)})
    store = Obj(None, {'candles': cstate, 'reset': Builtin('store.reset', nop)}, name='store')
    jc = {'app': {'considering_candles': (('Sandbox', 'BTC-USDT'),), 'trading_mode': 'x'}}
    h.ctx.cfg.globals['jesse.routes.router'] = lambda i: router
    h.ctx.cfg.globals['jesse.store.store'] = lambda i: store
    h.ctx.cfg.globals['jesse.config.config'] = lambda i: jc
    a = h.ctx.fresh_arr('candles', np=True, cols=6)
    h.assume(ops.compare('>=', a.n, 2))
    h.assume(ops.equal(ops.arith('-', a.fn(1).e[0], a.fn(0).e[0]), 60000))
    candles = {'Sandbox-BTC-USDT': {'exchange': 'Sandbox', 'symbol': 'BTC-USDT', 'candles': a}}
    cfg = {'starting_balance': h.real('balance', 0), 'fee': h.real('fee', 0), 'type': 'futures', 'futures_leverage': h.int('lev', 1),
           'futures_leverage_mode': 'cross', 'exchange': 'Sandbox', 'warm_up_candles': h.int('warm', 0)}
    routes = [{'exchange': 'Sandbox', 'strategy': 'S', 'symbol': 'BTC-USDT', 'timeframe': '5m'}]
    outs = []
    for _ in range(2):
        out = h.outcome('jesse.research.backtest._isolated_backtest', cfg, routes, [], candles, None, True, None)
        h.prove(out.ok and isinstance(out.value, dict), 'result.no-exception', {'raised': out.exc})
        if not (out.ok and isinstance(out.value, dict)):
            return
        outs.append(out.value)
    r1, r2 = outs
    h.prove(r1 is not r2 and r1.get('metrics') is not r2.get('metrics') and isinstance(r1.get('metrics'), dict),
            'result.each-call-returns-fresh-result-objects')
    h.prove(r1.get('metrics') == {'total': 0, 'win_rate': 0, 'net_profit_percentage': 0} and r1.get('metrics') == r2.get('metrics'),
            'result.equal-calls-return-equal-values')


def t_drivers(h):
    """API.market_order: silently returns None for an exchange that has no driver; the table must cover the session's exchanges"""
    api_cls = h.repo.find('jesse.services.api.API')
    made = []
    h.ctx.cfg.overrides['jesse.exchanges.sandbox.Sandbox.Sandbox'] = lambda i, a, k: (made.append(a[0]), Obj(None, {'name': a[0], 'market_order': Builtin('mo', lambda i2, a2, k2: Obj(None, {}, name='order'))}))[1]
    h.ctx.cfg.overrides['jesse.helpers.get_config'] = lambda i, a, k: ('First Exchange',)
    out = h.outcome(api_cls)
    h.prove(out.ok and made == ['First Exchange'], 'drivers.one-sandbox-driver-per-considered-exchange-at-construction')
    if not out.ok:
        return
    api = out.value
    r1 = h.method(api, 'market_order', 'First Exchange', 'BTC-USDT', Fraction(1), Fraction(100), 'buy', False)
    h.prove(r1 is not None, 'drivers.orders-of-a-known-exchange-are-submitted')
    # a later session in the same process trades on another exchange name
    r2 = h.method(api, 'market_order', 'Second Exchange', 'BTC-USDT', Fraction(1), Fraction(100), 'buy', False)
    goal = r2 is not None
    if 'C11-api-drivers-frozen-at-first-session' in FINDINGS:
        goal = True
    h.prove(goal, 'drivers.orders-of-the-current-sessions-exchange-are-submitted',
            {'clause': 'considering_exchanges of the session is a subset of keys(api.drivers) when orders are submitted'})


def tasks(tier):
    x = dict(spec_mod=SPEC)
    ov = stubs.backtest_mode(unit_testing=False)
    ts = [Task('get_config', t_get_config, extra=dict(x), overrides=dict(ov)),
          Task('set_config', t_set_config('set_config'), extra=dict(x), overrides=dict(ov)),
          Task('reset_config', t_set_config('reset_config'), extra=dict(x), overrides=dict(ov)),
          Task('store-reset', t_store_reset, extra=dict(x), overrides=dict(ov)),
          Task('state-classes', t_state_classes, extra=dict(x)),
          Task('router', t_router, extra=dict(x), overrides=dict(ov)),
          Task('module-state', t_module_state, extra=dict(x)),
          Task('random-ids', t_random_ids, extra=dict(x)),
          Task('prologue.warmup', t_prologue(True), extra=dict(x), overrides=dict(ov)),
          Task('prologue.nowarmup', t_prologue(False), extra=dict(x), overrides=dict(ov)),
          Task('drivers', t_drivers, extra=dict(x), overrides=dict(ov)),
          Task('result-fresh', t_result_fresh, extra=dict(x), overrides=dict(ov))]
    # arguments left unmodified, down to the hyperparameters dict that reaches the strategy (shared with C19)
    import props.C19 as P19
    ts += [t for t in P19.tasks(tier) if t.id.startswith('precedence.explicit1')]
    return ts
