"""C08 - fills inside one minute follow a single continuous price path.

proof:    split_candle against the sidecar postconditions (all real-valued inputs; the body only
          compares and selects, so the real model is exact for floats).
bounded:  _sort_execution_orders' path order for N <= 5 (quick: 4) resting orders, symbolic prices.
"""
import os
from pyvc.harness import Task, load_spec_module
from pyvc import ops
from pyvc.values import Obj, Vec, Arr
import contracts.C08 as K

PROPERTY = 'C08'
LEVEL = 'proof'
HERE = os.path.dirname(os.path.abspath(__file__))
SPEC = load_spec_module(os.path.join(HERE, '..', 'contracts', 'C08.py'), 'contracts.C08')

FUNCTIONS = ['jesse.modes.backtest_mode._simulate_price_change_effect', 'jesse.modes.backtest_mode._get_fixed_jumped_candle',
             'jesse.services.candle.split_candle', 'jesse.services.candle.is_bullish', 'jesse.services.candle.is_bearish',
             'jesse.services.candle.candle_includes_price', 'jesse.modes.backtest_mode._sort_execution_orders']
ASSUMPTIONS = [
    'A-1 floats are mathematical reals (exact here: split_candle and the sort only compare and select)',
    'A-12 the engine interprets the Python subset correctly (differential self-test, must-fail guard)',
    'the continuation clause (a reaction order only fills on the later part) is the data-flow obligation '
    'C02.step.match-uses-later-part, decided under C02',
]
TRUSTED = ['numpy.array (vector construction)', 'sorted (stable; symbolic keys decided by branching)']
EXPLANATION = ('split_candle: every return path against 8 postconditions, unbounded (all real inputs). '
               '_sort_execution_orders path order: bounded stand-in, N resting orders with symbolic real prices.')

MANIFEST = {
    'category': 'proof',
    'text': 'split_candle: every return path of the real function is proved against the sidecar postconditions for all '
            'real-valued candles and prices (exact for floats: the body only compares and selects). The path order of '
            '_sort_execution_orders is a bounded stand-in (N<=4 quick / N<=5 thorough resting orders, symbolic prices), '
            'reported under bounded_checks and never counted as discharged.',
    'note': 'Trusted: numpy.array construction, sorted() stability; engine soundness (A-12) guarded by a must-fail clause, '
            'vacuity covers and an obligation lock. The continuation clause is a data-flow obligation decided under C02.',
}


def _candle(h):
    c = h.vec('c', 6)
    return c


def t_split(h):
    c = _candle(h)
    p = h.real('p')
    for r in K.SPLIT_REQUIRES:
        h.assume(h.ev(r, c=c, p=p))
    h.cover('split.pre')
    out = h.outcome(K.SPLIT_FUNCTION, c, p)
    h.prove(out.ok, 'split_candle.no-exception')
    if not out.ok:
        return
    r = out.value
    ok = isinstance(r, tuple) and len(r) == 2 and all(isinstance(x, Vec) and len(x.e) == 6 for x in r)
    h.prove(ok, 'split_candle.returns-a-pair')
    if not ok:
        return
    e, l = r
    for name, text in K.SPLIT_ENSURES.items():
        h.prove(h.ev(text, c=c, p=p, e=e, l=l), f'split_candle.{name}', {'clause': text})
    # the two parts ARE the two halves of the one price path (open-low-high-close for a rising or doji candle, open-high-low-close
    # for a falling one - the same path the candidates are sorted by): every price the path reaches before p lies in the earlier
    # part, every price it first reaches after p lies in the later part (q arbitrary inside the candle)
    q = h.real('q')
    h.assume(h.ev('c[4] <= q and q <= c[3]', c=c, q=q))
    tq, tp = h.spec('path_time', c, q), h.spec('path_time', c, p)
    in_l = ops.land(ops.compare('<=', l.e[4], q), ops.compare('<=', q, l.e[3]))
    in_e = ops.land(ops.compare('<=', e.e[4], q), ops.compare('<=', q, e.e[3]))
    h.prove(ops.implies(ops.compare('>', tq, tp), in_l), 'split_candle.later-part-holds-what-the-path-reaches-after-the-split-price')
    h.prove(ops.implies(ops.compare('<', tq, tp), in_e), 'split_candle.earlier-part-holds-what-the-path-reached-before-the-split-price')
    h.prove(h.ev(K.SPLIT_MUSTFAIL, c=c, p=p, e=e, l=l), 'split_candle.mustfail')


BM = 'jesse.modes.backtest_mode'


def t_protocol(n_rest):
    """trace contract of _simulate_price_change_effect with the ghost variable `remaining` (the part of the minute's path
    not yet consumed): every candidate query and every split works on `remaining`, each split advances it to the later
    part, and a candidate list of two or more orders is put into path order (over `remaining`) before anything is filled"""
    def t(h):
        from props import C02 as P2
        W = P2.match_world(h, n_rest, allow_new=True, hook_cancels=False)
        c = h.vec('c', 6)
        P2.valid_candle(h, c)
        trace = []
        ov = h.ctx.cfg.overrides

        def spy(qual, tag):
            real = h.repo.find(qual)

            def f(i, a, k):
                ov.pop(qual)
                try:
                    r = i.call(real, list(a), k)
                finally:
                    ov[qual] = f
                trace.append((tag, list(a), r))
                return r
            ov[qual] = f
        spy(f'{BM}._get_executing_orders', 'candidates')
        spy(f'{BM}._sort_execution_orders', 'sort')
        spy('jesse.services.candle.split_candle', 'split')
        real_exec = ov['jesse.models.Order.Order.execute']

        def exec_spy(i, a, k):
            # ghost: the price a hook (and a MARKET order it submits) sees while the order executes
            trace.append(('execute', list(a), W.pos.f.get('current_price')))
            return real_exec(i, a, k)
        ov['jesse.models.Order.Order.execute'] = exec_spy
        h.cover('protocol.pre')
        out = h.outcome(f'{BM}._simulate_price_change_effect', c, 'Sandbox', 'BTC-USDT')
        h.prove(out.ok, 'protocol.no-exception', {'raised': out.exc})
        if not out.ok:
            return

        def same_candle(x, y):
            xv = x if isinstance(x, Vec) else (x.fn(0) if isinstance(x, Arr) and x.cols is not None else None)
            if xv is None or not isinstance(y, Vec):
                return False
            g = True
            for a_, b_ in zip(xv.e, y.e):
                g = ops.land(g, ops.equal(a_, b_))
            return g
        remaining = Vec(list(c.e))
        g_cand, g_split, g_sorted, g_price = True, True, True, True
        consumed = None
        pending_sort = None
        for tag, a, r in trace:
            if tag == 'candidates':
                g_cand = ops.land(g_cand, same_candle(a[2], remaining))
                pending_sort = r if len(r) > 1 else None
            elif tag == 'sort':
                ok = pending_sort is not None and a[0] is pending_sort
                g_sorted = ops.land(g_sorted, ops.land(ok, same_candle(a[1], remaining)))
                pending_sort = None
            elif tag == 'split':
                g_split = ops.land(g_split, same_candle(a[0], remaining))
                remaining = Vec(list(r[1].e))
                consumed = r[0]
            elif tag == 'execute':
                g_sorted = ops.land(g_sorted, pending_sort is None)
                # the price seen while the order executes (hooks, MARKET orders they submit) is the close of the part of the
                # path consumed by this fill - the fill price whenever the order is not priced at the open (split_candle.*)
                g_price = ops.land(g_price, False if (r is None or consumed is None) else ops.equal(r, consumed.e[2]))
                consumed = None
        h.prove(g_price, 'protocol.the-current-price-is-the-close-of-the-consumed-part-while-the-order-executes')
        h.prove(g_cand, 'protocol.candidates-are-taken-from-the-remaining-part-of-the-path')
        h.prove(g_split, 'protocol.each-fill-splits-the-remaining-part-not-the-whole-minute')
        h.prove(g_sorted, 'protocol.two-or-more-candidates-are-sorted-over-the-remaining-part-before-any-fill')
        if n_rest == 1:
            h.prove(len([t_ for t_ in trace if t_[0] == 'split']) == 0, 'protocol.mustfail')
    return t


def t_protocol_chunk(minutes=2):
    """fast simulator: every candidate list of two or more orders - the initial one and each one fetched again after a fill -
    is put into path order before anything is filled from it.  The candidate query is a contracted call here (its own
    contract is C02 `candidates`): it returns one resting order first and a list of two after every fill."""
    def t(h):
        from props import C02 as P2
        W = P2.match_world(h, 1, allow_new=False, hook_cancels=False)
        extra_orders = P2.mk_orders(h, 2, prefix='late')
        rows = []
        for j in range(minutes):
            v = h.vec(f'm{j}_', 6)
            P2.valid_candle(h, v)
            rows.append(v)
        # the resting order is reached in the first minute of the chunk
        h.assume(h.ev('includes(c, p)', c=rows[0], p=W.rest[0].f['price']))
        chunk = Arr(minutes, (lambda k, rows=rows: ops.pick(rows, k)), np=True, cols=6)
        trace = []
        ov = h.ctx.cfg.overrides
        calls = {'n': 0}

        def candidates(i, a, k):
            calls['n'] += 1
            r = [W.rest[0]] if calls['n'] == 1 else list(extra_orders)
            trace.append(('candidates', list(a), r))
            return r
        ov[f'{BM}._get_executing_orders'] = candidates
        def sort_stub(i, a, k):
            # contracted call (its path order is the obligation sort.path-order): returns the candidates it was given
            trace.append(('sort', list(a), a[0]))
            return a[0]
        ov[f'{BM}._sort_execution_orders'] = sort_stub
        real_exec = ov['jesse.models.Order.Order.execute']

        def exec_spy(i, a, k):
            trace.append(('execute', list(a), W.pos.f.get('current_price')))
            return real_exec(i, a, k)
        ov['jesse.models.Order.Order.execute'] = exec_spy
        real_split = h.repo.find('jesse.services.candle.split_candle')

        def split_spy(i, a, k):
            ov.pop('jesse.services.candle.split_candle')
            try:
                r = i.call(real_split, list(a), k)
            finally:
                ov['jesse.services.candle.split_candle'] = split_spy
            trace.append(('split', list(a), r))
            return r
        ov['jesse.services.candle.split_candle'] = split_spy
        h.cover('protocol.chunk.pre')
        out = h.outcome(f'{BM}._simulate_price_change_effect_multiple_candles', chunk, 'Sandbox', 'BTC-USDT')
        h.prove(out.ok, 'protocol.chunk.no-exception', {'raised': out.exc})
        if not out.ok:
            return
        ok = True
        g_price = True
        consumed = None
        pending = None
        for tag, a, r in trace:
            if tag == 'candidates':
                pending = r if len(r) > 1 else None
            elif tag == 'sort':
                ok = ok and pending is not None and a[0] is pending
                pending = None
            elif tag == 'split':
                consumed = r[0]
            elif tag == 'execute':
                ok = ok and pending is None
                g_price = ops.land(g_price, False if (r is None or consumed is None) else ops.equal(r, consumed.e[2]))
                consumed = None
        h.prove(g_price, 'protocol.chunk.the-current-price-is-the-close-of-the-consumed-part-while-the-order-executes')
        h.prove(ok, 'protocol.chunk.two-or-more-candidates-are-sorted-before-any-fill', {'events': [t_[0] for t_ in trace]})
        # completeness for the orders that appear after the first fill: one that is priced on the part of the first minute's path
        # that is still ahead is not left behind - whatever the other candidates are
        splits = [t_ for t_ in trace if t_[0] == 'split']
        if splits:
            rem0 = splits[0][2][1]
            ins = [ops.land(ops.compare('<=', rem0.e[4], o.f['price']), ops.compare('<=', o.f['price'], rem0.e[3])) for o in extra_orders]
            act = [ops.equal(o.f['status'], 'ACTIVE') for o in extra_orders]
            # the first candidate of the (sorted) list is tried on the whole remaining part; the second one, too, when the first is not
            # reachable there (nothing consumes the path in between) - the sort itself is a contracted call (sort.path-order)
            left = ops.land(ops.implies(act[0], ops.lnot(ins[0])), ops.implies(ops.lnot(ins[0]), ops.implies(act[1], ops.lnot(ins[1]))))
            h.prove(left, 'protocol.chunk.a-candidate-priced-on-the-remaining-path-of-the-minute-is-not-left-behind')
    return t


def mk_sort_task(n, red):
    def t(h):
        c = _candle(h)
        for r in K.SORT_REQUIRES:
            h.assume(h.ev(r, c=c))
        # split the case analysis over tasks: falling (open > close) vs rising/doji
        h.assume(ops.compare('>', c.e[1], c.e[2]) if red else ops.compare('<=', c.e[1], c.e[2]))
        orders = []
        for j in range(n):
            q = h.real(f'q{j}')
            h.assume(h.ev(K.SORT_ORDER_REQUIRES, c=c, q=q))
            orders.append(Obj(None, {'price': q, 'id': j}, name=f'o{j}'))
        h.cover(f'sort{n}.pre')
        c2 = Arr(1, (lambda k, c=c: c), np=True, cols=6)       # candle[None, :]
        out = h.outcome(K.SORT_FUNCTION, list(orders), c2)
        h.prove(out.ok, 'sort.no-exception')
        if not out.ok:
            return
        res = out.value
        first = {}
        for pos, o in enumerate(res):
            first.setdefault(id(o), pos)
        h.prove(all(id(o) in first for o in orders), 'sort.keeps-every-candidate')
        if not all(id(o) in first for o in orders):
            return
        # pairwise: earlier on the path => earlier in the result
        goal = True
        for a in orders:
            for b in orders:
                if a is b:
                    continue
                ta = h.spec('path_time', c, a.f['price'])
                tb = h.spec('path_time', c, b.f['price'])
                if first[id(a)] > first[id(b)]:
                    goal = ops.land(goal, ops.lnot(ops.compare('<', ta, tb)))
        h.prove(goal, 'sort.path-order', {'clause': 'path_time(a) < path_time(b) => a is tried before b'})
    return t


def tasks(tier):
    ts = [Task('split', t_split, functions=[K.SPLIT_FUNCTION], extra={'spec_mod': SPEC})]
    nmax = 4 if tier == 'quick' else 5
    for n in range(2, nmax + 1):
        for red in (False, True):
            ts.append(Task(f'sort.n{n}.{"falling" if red else "rising"}', mk_sort_task(n, red),
                           functions=[K.SORT_FUNCTION],
                           extra={'spec_mod': SPEC, 'bounded': f'number of resting orders N<={nmax} (prices symbolic reals)'},
                           max_paths=200000))
    from pyvc import stubs
    import props.C02 as P2
    import props.C07 as P7
    ov = stubs.backtest_mode()
    for n in ((1, 2) if tier == 'quick' else (1, 2, 3)):
        ts.append(Task(f'protocol.n{n}', t_protocol(n), extra={'spec_mod': P2.SPEC, 'bounded': f'{n} resting orders + one reaction order'},
                       overrides=dict(ov), max_paths=200000))
    ts.append(Task('candidates', P2.t_candidates, extra={'spec_mod': P2.SPEC}, overrides=dict(ov)))
    # shared with C02: the matching continues on the later part of the split and a reaction order priced on it is filled there
    ts.append(Task('continuation', P2.t_continuation, extra={'spec_mod': P2.SPEC}, overrides=dict(ov), max_paths=20000))
    ts.append(Task('protocol.chunk', t_protocol_chunk(2), extra={'spec_mod': P2.SPEC, 'bounded': 'chunk of 2 minutes, one resting order then two candidates after each fill'},
                   overrides=dict(ov), max_paths=400000))
    # the gap to the previous close is part of the minute's path (quantifier of C08): proved for all reals
    ts.append(Task('fixed-jump', P7.t_fixed_jump, extra={'spec_mod': P7.SPEC}, overrides=dict(ov)))
    return ts
