"""C16 - reported metrics are consistent with the trades and the equity series (equity sampling part under contract)."""
import json
import os
from fractions import Fraction
from pyvc.harness import Task, load_spec_module
from pyvc import ops, stubs
from pyvc.values import Obj, Sym, Arr, Vec, Opaque
from pyvc.interp import Builtin
from props import common, sim
import contracts.C16 as K

PROPERTY = 'C16'
LEVEL = 'proof'
HERE = os.path.dirname(os.path.abspath(__file__))
SPEC = load_spec_module(os.path.join(HERE, '..', 'contracts', 'C16.py'), 'contracts.C16')
BM = 'jesse.modes.backtest_mode'
ST = 'jesse.strategies.Strategy.Strategy'
FUNCTIONS = ['jesse.modes.utils.save_daily_portfolio_balance', f'{ST}.portfolio_value', f'{ST}.all_positions', f'{ST}.balance',
             f'{BM}._step_simulator', f'{BM}._skip_simulator', 'jesse.models.Position.Position.pnl', 'jesse.models.Position.Position.value',
             'jesse.services.metrics.trades', 'jesse.services.metrics.max_drawdown', 'jesse.services.metrics.cagr',
             'jesse.services.metrics.sharpe_ratio', 'jesse.services.metrics.sortino_ratio', 'jesse.services.metrics.calmar_ratio',
             'jesse.services.metrics.omega_ratio', 'jesse.services.metrics._prepare_returns']
ASSUMPTIONS = [
    'A-1; A-6 backtest mode; A-7',
    'metrics.trades and the ratio helpers run from their real AST over a bounded pandas model (pyvc/pdmodel.py: concrete row count, '
    'symbolic cells; checked against the real pandas by tools/pdmodel_selftest.py): BOUNDED in the number of trades (<= 3 quick, '
    '<= 5 thorough) and of daily samples (<= 3 quick, <= 4 thorough; 5 samples exceed two hours of solver time), never counted as proved',
    'sqrt and x**y with a fractional exponent are uninterpreted (congruence only); +-inf and NaN are one non-finite value; every '
    'float division in metrics.py yields NaN on a zero divisor (numpy scalars), ZeroDivisionError of Python ints is not modelled there',
    'closed trades are contracted records (to_dict with type / PNL / fee / holding_period): ClosedTrade.to_dict itself is C06 territory; '
    'serenity_index (not named by the property) is a contracted call; daily balances are positive',
    'the standard definitions are those of contracts/C16.py (max drawdown on the compounded daily-return curve starting at 1, CAGR over '
    'the d-1 days spanned with a 365-day year, sample standard deviation, downside deviation over the return observations)',
    'spot equity harness: two routes sharing the quote wallet, at most one resting order per route (status and side symbolic)',
    'sampling: one arbitrary iteration of each simulator loop plus prologue and epilogue, with recording stubs (contracted calls)',
]
TRUSTED = ['list.append']
EXPLANATION = ('equity sample = wallet + unrealised PnL (futures) / free + reserved quote + base value over all routes (spot); '
               'one initial sample, one per simulated day, one final. Every number reported by metrics.trades equals its defining '
               'expression of contracts/C16.py (bounded in list length).')
MANIFEST = {
    'technique': 'contract-based deductive verification: symbolic execution of the real ASTs (z3/cvc5); metrics.trades over a bounded pandas model (self-tested against pandas), native replay',
    'category': 'proof',
    'text': 'The equity series part of the property is proved: save_daily_portfolio_balance appends wallet + unrealised PnL of all open '
            'positions in futures and, in spot, free quote + quote reserved by the resting buys of every route + market value of the '
            'base held (Strategy.portfolio_value executed from its real AST over two routes); both simulator loops take one initial '
            'sample, one sample exactly at every i != 0 with i % 1440 == 0, and one final sample after the strategies terminated. '
            'metrics.trades and the ratio helpers are executed from their real AST over a pandas model: every reported number equals its '
            'defining expression (TRADE_METRICS / RATIO_METRICS / TRADE_IDENTITIES of contracts/C16.py) for symbolic PnL, fee, holding '
            'period and equity values - bounded in the number of trades and daily samples.',
    'note': 'equity sampling: proof; metrics identities: bounded (list lengths), listed under bounded_checks in the evidence.',
}
FINDINGS = set(json.loads(os.environ.get('PYVC_FINDINGS', '[]')))


def t_daily_futures(h):
    w = common.futures_world(h, symbols=('BTC-USDT', 'ETH-USDT'), mode=common.any_mode(h))
    ps = []
    for s in ('BTC-USDT', 'ETH-USDT'):
        p = w.positions[s]
        if h.branch(h.bool('open_' + s[:3])):
            q, e, c = common.open_position(h, p, None, name=s[:3] + '.')
            ps.append((q, e, c))
        else:
            p.f['current_price'] = h.real(s[:3] + '.P', 0)
    balances = []
    app = Obj(None, {'daily_balance': balances})
    store = Obj(None, {'app': app, 'exchanges': Obj(None, {'storage': {'Sandbox': w.exchange}}),
                       'positions': Obj(None, {'storage': {f'Sandbox-{s}': w.positions[s] for s in w.positions}})})
    h.ctx.cfg.globals['jesse.store.store'] = lambda i: store
    h.ctx.cfg.overrides['jesse.helpers.app_currency'] = lambda i, a, k: 'USDT'
    out = h.outcome('jesse.modes.utils.save_daily_portfolio_balance')
    h.prove(out.ok and len(balances) == 1, 'daily.futures.appends-one-sample', {'raised': out.exc})
    if out.ok and len(balances) == 1:
        want = h.spec('futures_equity', w.exchange.f['assets']['USDT'], ps)
        h.prove(ops.equal(balances[0], want), 'daily.futures.sample-is-wallet-plus-unrealised-pnl')
        h.prove(ops.equal(balances[0], w.exchange.f['assets']['USDT']), 'daily.mustfail') if len(ps) == 2 else None


def t_daily_spot(h):
    r = h.repo
    fee = h.real('fee', 0, Fraction(1, 100))
    ex = Obj(r.find('jesse.models.SpotExchange.SpotExchange'), name='exchange')
    quote = h.real('free_quote', 0)
    ex.f.update(name='Sandbox', type='spot', fee_rate=fee, settlement_currency='USDT', assets={'USDT': quote, 'BTC': Fraction(0), 'ETH': Fraction(0)})
    scls = r.find(ST)
    routes = []
    strategies = {}
    positions = {}
    orders = {}
    resting = []
    holdings = []
    for s in ('BTC-USDT', 'ETH-USDT'):
        base = s[:3]
        qty = h.real(base + '.held', 0)
        price = h.real(base + '.price', 0)
        h.assume(ops.compare('>', price, 0))
        ex.f['assets'][base] = qty
        p = Obj(r.find('jesse.models.Position.Position'), name=f'position[{s}]')
        p.f.update(entry_price=h.real(base + '.entry', 0), current_price=price, qty=qty, previous_qty=0, exchange_name='Sandbox',
                   exchange=ex, symbol=s, strategy=None)
        st = Obj(scls, {'id': 'id' + base, 'symbol': s, 'exchange': 'Sandbox', 'timeframe': '1m', 'position': p, 'name': 'S'}, name='strategy ' + base)
        p.f['strategy'] = st
        positions[s] = p
        strategies[s] = st
        routes.append(Obj(None, {'exchange': 'Sandbox', 'symbol': s, 'timeframe': '1m', 'strategy': st}))
        holdings.append((qty, price))
        # one order of the route: side / status symbolic
        oq, op = h.real(base + '.oq', 0), h.real(base + '.op', 0)
        h.assume(ops.land(ops.compare('>', oq, 0), ops.compare('>', op, 0)))
        side = 'buy' if h.branch(h.bool(base + '.is_buy')) else 'sell'
        status = 'ACTIVE' if h.branch(h.bool(base + '.is_active')) else 'EXECUTED'
        # the order type is a finite enumeration: a resting STOP entry reserves its quote like a LIMIT one
        otype = 'LIMIT' if h.branch(h.bool(base + '.is_limit')) else 'STOP'
        o = common.mk_order(h, side=side, type=otype, qty=oq if side == 'buy' else ops.neg(oq), price=op, symbol=s,
                            exchange='Sandbox', reduce_only=False, status=status, id='o' + base)
        orders[s] = [o]
        if side == 'buy' and status == 'ACTIVE':
            resting.append((oq, op))
        if side == 'sell' and status == 'ACTIVE':
            h.assume(ops.compare('<=', oq, qty))        # a resting sell never exceeds the base held (C04 submission contract)
    reg = h.interp.instantiate
    ocls = r.find('jesse.store.state_orders.OrdersState')
    ostate = Obj(ocls, {'to_execute': [], 'storage': {f'Sandbox-{s}': list(orders[s]) for s in orders},
                        'active_storage': {f'Sandbox-{s}': list(orders[s]) for s in orders}})
    balances = []
    app = Obj(None, {'daily_balance': balances})
    store = Obj(None, {'app': app, 'orders': ostate, 'exchanges': Obj(None, {'storage': {'Sandbox': ex}}),
                       'positions': Obj(None, {'storage': {f'Sandbox-{s}': positions[s] for s in positions}})})
    router = Obj(None, {'routes': routes})
    for m in ('jesse.store.store', 'jesse.strategies.Strategy.store'):
        h.ctx.cfg.globals[m] = lambda i: store
    h.ctx.cfg.globals['jesse.routes.router'] = lambda i: router
    ov = h.ctx.cfg.overrides
    ov['jesse.helpers.app_currency'] = lambda i, a, k: 'USDT'
    ov['jesse.services.selectors.get_exchange'] = lambda i, a, k: ex
    ov['jesse.services.selectors.get_position'] = lambda i, a, k: positions.get(a[1])
    ov[f'{ST}.routes'] = lambda i, a, k: routes
    h.cover('daily.spot.pre')
    out = h.outcome('jesse.modes.utils.save_daily_portfolio_balance')
    h.prove(out.ok and len(balances) == 1, 'daily.spot.appends-one-sample', {'raised': out.exc})
    if out.ok and len(balances) == 1:
        want = h.spec('spot_equity', quote, resting, holdings)
        h.prove(ops.equal(balances[0], want), 'daily.spot.sample-is-free-plus-reserved-quote-plus-base-value-over-all-routes',
                {'resting_buys': len(resting)})


def t_sampling(simulator):
    def t(h):
        sim.lib_time(h)
        S = sim.build(h, symbols=('BTC-USDT',), timeframes=('1m', '5m'), route_tfs=('5m',))
        key = (f'{BM}.{simulator}', 0)
        state = {'in_loop': False}

        def start(interp, fr, i):
            state['prologue'] = list(S.events)
            del S.events[:]

        def end(interp, fr, i):
            n = sum(1 for e in S.events if e[0] == 'daily')
            day = ops.land(ops.lnot(ops.equal(i, 0)), ops.equal(ops.arith('%', i, 1440), 0))
            if h.branch(day):
                h.prove(n == 1, f'sampling.{simulator}.one-sample-at-every-day-boundary')
                names = [e[0] for e in S.events]
                h.prove(names[-1] == 'daily', f'sampling.{simulator}.sample-taken-after-the-step-completed')
            else:
                h.prove(n == 0, f'sampling.{simulator}.no-sample-inside-a-day')

        def exit_(interp, fr, i):
            del S.events[:]
        h.ctx.cfg.extra['loop_hooks'] = {key: {'start': start, 'end': end, 'exit': exit_}}
        h.ctx.cfg.extra['havoc'] = {key: {'last_update_time': lambda i, old: Opaque('t')}}
        h.ctx.cfg.invariants[key] = []
        ov = h.ctx.cfg.overrides
        ov[f'{BM}._execute_market_orders'] = lambda i, a, k: S.events.append(('flush', (), {}))
        ov[f'{BM}._calculate_minimum_candle_step'] = lambda i, a, k: 5
        ov[f'{BM}._simulate_new_candles'] = lambda i, a, k: S.events.append(('feed', tuple(a), {}))
        before = []
        out = h.outcome(f'{BM}.{simulator}', S.candles, True)
        h.prove(out.ok, f'sampling.{simulator}.no-exception', {'raised': out.exc})
        if not out.ok:
            return
        # exit path: events since loop exit = epilogue
        epi = [e for e in S.events]
        names = [e[0] for e in epi]
        h.prove(names.count('daily') == 1 and 'terminate' in names and names.index('daily') > max(j for j, n in enumerate(names) if n == 'terminate'),
                f'sampling.{simulator}.one-final-sample-after-the-strategies-terminated', {'epilogue': names})
        # the closing market order a strategy submits when it terminates is executed before anything else (the next route's
        # termination, the final equity sample): every terminate is directly followed by the market-order flush
        ok = all(j + 1 < len(names) and names[j + 1] == 'flush' for j, n in enumerate(names) if n == 'terminate')
        h.prove(ok, f'sampling.{simulator}.each-termination-is-followed-by-the-market-order-flush', {'epilogue': names})
    return t


def t_initial(simulator):
    def t(h):
        sim.lib_time(h)
        S = sim.build(h, symbols=('BTC-USDT',), timeframes=('1m', '5m'), route_tfs=('5m',))
        key = (f'{BM}.{simulator}', 0)
        seen = {}

        def start(interp, fr, i):
            if 'prologue' not in seen:
                seen['prologue'] = list(S.events)
                pro = [e for e in seen['prologue'] if e[0] == 'daily']
                h.prove(len(pro) == 1 and pro[0][2].get('is_initial') is True, f'sampling.{simulator}.one-initial-sample-before-the-first-step')
        h.ctx.cfg.extra['loop_hooks'] = {key: {'start': start}}
        h.ctx.cfg.extra['havoc'] = {key: {'last_update_time': lambda i, old: Opaque('t')}}
        h.ctx.cfg.invariants[key] = []
        ov = h.ctx.cfg.overrides
        ov[f'{BM}._execute_market_orders'] = lambda i, a, k: None
        ov[f'{BM}._calculate_minimum_candle_step'] = lambda i, a, k: 5
        ov[f'{BM}._simulate_new_candles'] = lambda i, a, k: None
        h.outcome(f'{BM}.{simulator}', S.candles, True)
    return t


def metrics_world(h, pnls, types, fees, holds, balances):
    from pyvc import pdmodel, npvec, lib
    npvec.install()
    lib.NPVEC[0] = npvec
    pdmodel.install()
    start, finish = h.real('start'), h.real('finish')
    h.assume(ops.compare('>', start, 0))
    trades = [Obj(None, {'to_dict': {'id': f't{j}', 'type': types[j], 'PNL': pnls[j], 'fee': fees[j], 'holding_period': holds[j],
                                     'size': h.real(f'size{j}', 0), 'entry_price': h.real(f'entry{j}', 0)}}, name=f'trade{j}')
              for j in range(len(pnls))]
    ex = Obj(None, {'starting_assets': {'USDT': start}, 'assets': {'USDT': finish}}, name='exchange')
    app = Obj(None, {'starting_time': 1609459200000, 'total_open_trades': 0, 'total_open_pl': 0}, name='store.app')
    store = Obj(None, {'exchanges': Obj(None, {'storage': {'Sandbox': ex}}), 'app': app}, name='store')
    h.ctx.cfg.globals['jesse.services.metrics.store'] = lambda i: store
    ov = h.ctx.cfg.overrides
    ov['jesse.helpers.app_currency'] = lambda i, a, k: 'USDT'
    # serenity index (np.sort / CVaR) is not part of the property: contracted call returning an unconstrained number
    ov['jesse.services.metrics.serenity_index'] = lambda i, a, k: pdmodel.Ser([h.ctx.fresh_real('serenity', nan=True)])
    return trades, start, finish


def t_pdmodel_selftest(h):
    """library-specification guard: the pandas model must agree with the real pandas on concrete inputs; a disagreement
    is a checker error (exit 3), never a violation"""
    import importlib.util
    spec = importlib.util.spec_from_file_location('pdmodel_selftest', os.path.join(HERE, '..', 'tools', 'pdmodel_selftest.py'))
    mod = importlib.util.module_from_spec(spec)
    spec.loader.exec_module(mod)
    if mod.main() != 0:
        raise RuntimeError('pyvc/pdmodel.py disagrees with the real pandas (tools/pdmodel_selftest.py)')
    h.cover('metrics.pandas-model-agrees-with-real-pandas')


def t_trade_metrics(types):
    """metrics.trades on n = len(types) closed trades with symbolic PnL / fee / holding period (real AST, pandas model)"""
    def t(h):
        n = len(types)
        pnls = [h.real(f'pnl{j}') for j in range(n)]
        fees = [h.real(f'fee{j}', 0) for j in range(n)]
        holds = [h.real(f'hold{j}', 0) for j in range(n)]
        balances = [h.real('b0'), h.real('b1')]
        for b in balances:
            h.assume(ops.compare('>', b, 0))
        trades, start, finish = metrics_world(h, pnls, list(types), fees, holds, balances)
        h.cover('metrics.trades.pre')
        # `final` (the session is over / still running - Strategy.metrics reads the numbers during a run) is a finite enumeration
        final = True if (n > 1 or h.branch(h.bool('final'))) else False      # both values on the one-trade lists (cost)
        snap = list(balances)
        out = h.outcome('jesse.services.metrics.trades', trades, balances, final=final)
        h.prove(out.ok, 'metrics.trades.no-exception', {'raised': out.exc})
        if not out.ok:
            return
        h.prove(len(balances) == len(snap) and all(x is y for x, y in zip(balances, snap)),
                'metrics.trades.the-daily-balance-argument-is-left-unmodified', {'length_now': len(balances), 'final': final})
        m = out.value
        env = dict(m=m, pnls=pnls, types=list(types), fees=fees, holds=holds, start=start, finish=finish)
        for key, text in K.TRADE_METRICS.items():
            h.prove(key in m and h.ev(f'same(m[{key!r}], {text})', **env), f'metrics.trades.{key}-equals-its-definition',
                    {'clause': f'{key} == {text}'})
        for cid, text in K.TRADE_IDENTITIES:
            h.prove(h.ev(text, **env), f'metrics.trades.{cid}', {'clause': text})
        if n == 2 and types[0] == 'long':
            h.prove(h.ev("m['win_rate'] == 1", **env), 'metrics.mustfail')
    return t


def t_ratio_metrics(d):
    """ratio metrics on d daily equity samples (symbolic, positive)"""
    def t(h):
        pnls, fees, holds = [h.real('pnl0')], [h.real('fee0', 0)], [h.real('hold0', 0)]
        balances = [h.real(f'b{j}') for j in range(d)]
        for b in balances:
            h.assume(ops.compare('>', b, 0))
        trades, start, finish = metrics_world(h, pnls, ['long'], fees, holds, balances)
        h.cover('metrics.ratios.pre')
        out = h.outcome('jesse.services.metrics.trades', trades, balances)
        h.prove(out.ok, 'metrics.ratios.no-exception', {'raised': out.exc})
        if not out.ok:
            return
        m = out.value
        env = dict(m=m, balances=balances)
        for key, text in K.RATIO_METRICS.items():
            if f'C16-{key}' in FINDINGS:
                continue
            h.prove(key in m and h.ev(f'same(m[{key!r}], {text})', **env), f'metrics.ratios.{key}-equals-its-standard-definition',
                    {'clause': f'{key} == {text}', 'days': d})
        h.prove(h.ev("isnan(m['max_drawdown']) or m['max_drawdown'] <= 0", **env), 'metrics.ratios.max-drawdown-is-never-positive')
    return t


def tasks(tier):
    x = dict(spec_mod=SPEC)
    ov = stubs.backtest_mode()
    ts = [Task('daily.futures', t_daily_futures, extra=dict(x), overrides=dict(ov)),
          Task('daily.spot', t_daily_spot, extra=dict(x), overrides=dict(ov))]
    for s_ in ('_step_simulator', '_skip_simulator'):
        ts.append(Task(f'sampling.{s_}', t_sampling(s_), extra=dict(x), overrides=dict(ov), invariants={}))
        ts.append(Task(f'initial.{s_}', t_initial(s_), extra=dict(x), overrides=dict(ov), invariants={}))
    combos = [('long',), ('short',), ('long', 'short'), ('long', 'long', 'short'), ('short', 'long', 'short')]
    if tier == 'thorough':
        combos += [('long', 'short', 'long', 'short'), ('short', 'short', 'long', 'long', 'short')]
    xm = dict(x, np_scalar_div=True, merge_ifs=True, fork_solver=True)
    ts.append(Task('metrics.pandas-model-selftest', t_pdmodel_selftest, extra=dict(x)))
    for types in combos:
        ts.append(Task('metrics.trades.' + ''.join(t_[0] for t_ in types), t_trade_metrics(types), overrides=dict(ov), max_paths=20000,
                       extra=dict(xm, bounded=f'{len(types)} closed trades (symbolic PnL, fee, holding period), pandas model', task_timeout_s=1200 if tier == 'quick' else 3600)))
    for d in ((2, 3) if tier == 'quick' else (2, 3, 4)):
        ts.append(Task(f'metrics.ratios.d{d}', t_ratio_metrics(d), overrides=dict(ov), max_paths=20000,
                       extra=dict(xm, bounded=f'{d} daily equity samples (symbolic), pandas model', task_timeout_s=1200 if tier == 'quick' else 7200)))
    return ts
