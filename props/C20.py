"""C20 - candle series handed to the store are gapless and strictly ordered."""
import os
import z3
from fractions import Fraction
from pyvc.harness import Task, load_spec_module
from pyvc import ops, stubs
from pyvc.values import Obj, Sym, Arr, Vec, Opaque, z3num
from pyvc.interp import Builtin
from props import common
import contracts.C20 as K

PROPERTY = 'C20'
LEVEL = 'proof'
HERE = os.path.dirname(os.path.abspath(__file__))
SPEC = load_spec_module(os.path.join(HERE, '..', 'contracts', 'C20.py'), 'contracts.C20')
CS = 'jesse.store.state_candles.CandlesState'
FUNCTIONS = [K.FILL, f'{CS}.add_candle', f'{CS}.add_multiple_1m_candles', f'{CS}.get_storage',
             'jesse.research.backtest._isolated_backtest']
ASSUMPTIONS = [
    'A-6 backtest mode (live branches of add_candle excluded); A-7; pydash.find axiomatised',
    'gap filler: provided timestamps pairwise distinct, (end - start) a non-negative multiple of 60000; the ghost F (first provided '
    'minute) is a definitional extension of the input',
    'add_candle: the per-key array satisfies the C18 invariant and holds strictly increasing timestamps; an older timestamp that is '
    'not stored is outside the statement (the code leaves the store unchanged)',
    'batch_add_candle (a loop of add_candle calls) is covered through add_candle\'s contract only',
]
TRUSTED = ['pydash.find', 'copy.deepcopy', 'numpy slicing']
EXPLANATION = 'gap filler: inductive loop invariant, unbounded interval; add_candle / add_multiple_1m_candles per case; spacing check iff'
MANIFEST = {
    'category': 'proof',
    'text': '_fill_absent_candles is proved with an inductive loop invariant for every interval length and every pattern of missing '
            'minutes: one candle per minute in increasing order, provided candles kept field-for-field, missing minutes flat at the '
            'previous close (first open before any candle). CandlesState.add_candle is proved per case from an arbitrary store state '
            'with strictly increasing timestamps: new timestamp appended, stored timestamp replaced (search loop with invariant), '
            'order preserved; add_multiple_1m_candles likewise; the isolated backtest raises ValueError iff some candle set has '
            'leading candles not 60000 ms apart, before the simulator is reached.',
    'note': 'pydash.find and numpy slicing axiomatised; live-mode branches excluded (A-6); unknown older timestamps are outside the '
            'statement.',
}

FIELDS = ('timestamp', 'open', 'close', 'high', 'low', 'volume')


def records(h, name, n=None):
    """a list of candle dicts of symbolic length: field k of element j is an uninterpreted function of j"""
    ctx = h.ctx
    if n is None:
        n = h.int(name + '.len', 0)
    fs = {}
    for f in FIELDS:
        fs[f] = z3.Function(ctx._name(f'{name}.{f}'), z3.IntSort(), z3.IntSort() if f == 'timestamp' else z3.RealSort())

    def fn(k, fs=fs):
        kt = z3num(k)
        d = {'id': Opaque('id'), 'exchange': 'Binance', 'symbol': 'BTC-USDT', 'timeframe': '1m'}
        for f in FIELDS:
            d[f] = Sym(fs[f](kt), 'int' if f == 'timestamp' else 'real')
        return d
    return Arr(n, fn, np=False)


def t_fill(h):
    temp = records(h, 'temp')
    m = temp.n
    h.assume(ops.compare('>=', m, 1))
    start0 = h.int('start')
    nmin = h.int('n_minutes', 1)
    end = ops.arith('+', start0, ops.arith('*', 60000, ops.arith('-', nmin, 1)))
    # provided timestamps are pairwise distinct
    q1, q2 = ops.fresh_qvar('a'), ops.fresh_qvar('b')
    ts = lambda q: temp.fn(Sym(q, 'int'))['timestamp'].t
    h.ctx.s.add(z3.ForAll([q1, q2], z3.Implies(z3.And(q1 >= 0, q1 < q2, q2 < m.t), ts(q1) != ts(q2))))
    # ghost F: first provided minute (or any value >= n_minutes when none is)
    F = h.int('F', 0)
    env = dict(temp_candles=temp, start0=start0, F=F, n_minutes=nmin)
    h.assume(h.ev("forall(lambda j: not present(temp_candles, minute(start0, j)), 0, F)", **env))
    h.assume(h.ev("F >= n_minutes or present(temp_candles, minute(start0, F))", **env))
    h.cover('fill.pre')
    # ghost names visible to the invariant
    h.ctx.cfg.extra['ghost'] = dict(start0=start0, F=F)
    out = h.outcome(K.FILL, temp, start0, end)
    h.prove(out.ok, 'fill.no-exception', {'raised': out.exc})
    if not out.ok:
        return
    r = out.value
    for name, text in K.FILL_ENSURES.items():
        h.prove(h.ev(text, r=r, **env), f'fill.{name}', {'clause': text})


def t_fill_empty(h):
    out = h.outcome(K.FILL, [], h.int('s'), h.int('e'))
    h.prove((not out.ok) and out.exc == 'CandleNotFoundInExchange', 'fill.empty-input-rejected')


def mk_store(h, tf='1m'):
    cls = h.repo.find(CS)
    arr = common.mk_table(h, f'storage[{tf}]', cols=6)
    st = Obj(cls, {'storage': {f'Sandbox-BTC-USDT-{tf}': arr}, 'are_all_initiated': False, 'initiated_pairs': {}}, name='candles')
    arr.f['shape'] = (h.int('bucket', 1), 6)
    arr.f['bucket_size'] = arr.f['shape'][0]
    n = ops.arith('+', arr.f['index'], 1)
    rows = arr.f['array']
    h.assume(h.ev('strictly_increasing(rows, n)', rows=rows, n=n))
    q = ops.fresh_qvar('t')
    h.ctx.s.add(z3.ForAll([q], z3.Implies(z3.And(q >= 0, q < z3num(n)), rows.fn(Sym(q, 'int')).e[0].t > 0)))
    return st, arr


def snap_rows(arr):
    a = arr.f['array']
    return Arr(ops.arith('+', arr.f['index'], 1), a.fn, np=False, cols=6)


def rows_now(arr):
    return snap_rows(arr)


def t_add(case):
    def t(h):
        st, arr = mk_store(h, '5m')
        old = snap_rows(arr)
        n = old.n
        c = h.vec('c', 6)
        ts = c.e[0]
        h.assume(ops.compare('>', ts, 0))
        h.ctx.cfg.extra['ghost'] = {}
        if case == 'empty':
            h.assume(ops.equal(n, 0))
        elif case == 'newer':
            h.assume(ops.land(ops.compare('>', n, 0), ops.compare('>', ts, old.fn(ops.arith('-', n, 1)).e[0])))
        elif case == 'stored':
            k = h.int('k', 0)
            h.assume(ops.compare('<', k, n))
            h.assume(ops.equal(ts, old.fn(k).e[0]))
        h.cover(f'add.{case}.pre')
        out = h.method_outcome(st, 'add_candle', c, 'Sandbox', 'BTC-USDT', '5m', with_execution=False, with_generation=False)
        h.prove(out.ok, f'add_candle.{case}.no-exception', {'raised': out.exc})
        if not out.ok:
            return
        new = rows_now(arr)
        if case in ('empty', 'newer'):
            want = h.interp.lib.list_concat(h.interp, old, [c])
            h.prove(ops.equal(new, want), f'add_candle.{case}.appended')
        else:
            want = Arr(n, (lambda j, old=old, k=k, c=c: ops.ite(ops.equal(j, k).t, c, old.fn(j)) if not isinstance(ops.equal(j, k), bool)
                           else (c if ops.equal(j, k) else old.fn(j))), np=False, cols=6)
            h.prove(ops.equal(new, want), 'add_candle.stored.replaces-the-stored-candle', {'clause': 'view == old[k := candle]'})
        h.prove(h.ev('strictly_increasing(rows, n)', rows=new, n=new.n), f'add_candle.{case}.keeps-timestamps-strictly-increasing')
        if case == 'newer':
            h.prove(ops.equal(new.n, n), 'add_candle.mustfail')
    return t


def t_batch(empty):
    """trace contract of CandlesState.batch_add_candle (warm-up injection, required-candles loading): every candle of the batch
    goes through add_candle - the append / replace-by-timestamp logic - in order, and the storage is touched by nothing else"""
    def t(h):
        st, arr = mk_store(h, '1m')
        if empty:
            h.assume(ops.equal(arr.f['index'], -1))
        before = (arr.f['index'], arr.f['array'])
        calls = []
        h.ctx.cfg.overrides[f'{CS}.add_candle'] = lambda i, a, k: calls.append((a[1], tuple(a[2:5]), dict(k)))
        rows = [h.vec(f'b{j}_', 6) for j in range(3)]
        batch = Arr(3, (lambda kk, rows=rows: ops.pick(rows, kk)), np=True, cols=6)
        h.cover('batch.pre')
        out = h.method_outcome(st, 'batch_add_candle', batch, 'Sandbox', 'BTC-USDT', '1m', with_generation=False)
        h.prove(out.ok, 'batch.no-exception', {'raised': out.exc})
        if not out.ok:
            return
        ok = len(calls) == 3 and all(c[1] == ('Sandbox', 'BTC-USDT', '1m') for c in calls)
        if ok:
            for j, c in enumerate(calls):
                row = c[0]
                same = isinstance(row, Vec) and all(ops.equal(x, y) is True for x, y in zip(row.e, rows[j].e))
                ok = ok and same and c[2].get('with_execution') is False
        h.prove(ok, 'batch.every-candle-goes-through-add_candle-in-order', {'calls': len(calls)})
        h.prove(arr.f['index'] is before[0] and arr.f['array'] is before[1], 'batch.storage-is-touched-by-add_candle-only')
    return t


def t_empty_candle(h):
    """CandlesState._generate_empty_candle_from_previous_candle (the gap filler of the store): a NEW candle one timeframe later, flat
    at the previous close with zero volume - the candle it is derived from (a live row of the store) is left as it is"""
    st, arr = mk_store(h, '1m')
    prev = h.vec('prev', 6)
    before = list(prev.e)
    out = h.method_outcome(st, '_generate_empty_candle_from_previous_candle', prev, '5m')
    h.prove(out.ok, 'empty-candle.no-exception', {'raised': out.exc})
    if not out.ok:
        return
    new = out.value
    h.prove(isinstance(new, Vec) and new is not prev, 'empty-candle.result-is-a-new-array')
    same = all(x is y or ops.equal(x, y) is True for x, y in zip(prev.e, before))
    h.prove(same, 'empty-candle.the-previous-candle-is-left-unmodified')
    if isinstance(new, Vec):
        c = before[2]
        goal = ops.land(ops.equal(new.e[0], ops.arith('+', before[0], 300000)), ops.equal(new.e[5], 0))
        for k in (1, 2, 3, 4):
            goal = ops.land(goal, ops.equal(new.e[k], c))
        h.prove(goal, 'empty-candle.one-timeframe-later-flat-at-the-previous-close-with-zero-volume')


def t_multi(case):
    def t(h):
        st, arr = mk_store(h, '1m')
        old = snap_rows(arr)
        n = old.n
        batch = h.ctx.fresh_arr('batch', np=True, cols=6)
        m = batch.n
        h.assume(ops.compare('>=', m, 1))
        h.assume(h.ev('strictly_increasing(rows, n)', rows=batch, n=m))
        if case == 'empty':
            h.assume(ops.equal(n, 0))
        elif case == 'newer':
            h.assume(ops.land(ops.compare('>', n, 0), ops.compare('>', batch.fn(0).e[0], old.fn(ops.arith('-', n, 1)).e[0])))
        elif case == 'overlap':
            # the first m-k minutes of the batch are stored already (they are the last m-k stored ones), the last k are new
            k = h.int('k', 1)
            h.assume(ops.land(ops.compare('<', k, m), ops.compare('<=', m, n)))
            q = ops.fresh_qvar('s')
            off = ops.arith('-', n, ops.arith('-', m, k))
            h.ctx.s.add(z3.ForAll([q], z3.Implies(z3.And(q >= 0, q < z3num(m) - z3num(k)),
                                                  batch.fn(Sym(q, 'int')).e[0].t == old.fn(ops.arith('+', off, Sym(q, 'int'))).e[0].t)))
            h.assume(ops.equal(batch.fn(ops.arith('-', m, 1)).e[0],
                               ops.arith('+', old.fn(ops.arith('-', n, 1)).e[0], ops.arith('*', k, 60000))))
        else:
            h.assume(ops.compare('<=', m, n))
            q = ops.fresh_qvar('s')
            off = ops.arith('-', n, m)
            h.ctx.s.add(z3.ForAll([q], z3.Implies(z3.And(q >= 0, q < z3num(m)),
                                                  batch.fn(Sym(q, 'int')).e[0].t == old.fn(ops.arith('+', off, Sym(q, 'int'))).e[0].t)))
        h.cover(f'multi.{case}.pre')
        out = h.method_outcome(st, 'add_multiple_1m_candles', batch, 'Sandbox', 'BTC-USDT')
        h.prove(out.ok, f'add_multiple.{case}.no-exception', {'raised': out.exc})
        if not out.ok:
            return
        new = rows_now(arr)
        b = Arr(m, batch.fn, np=False, cols=6)
        if case in ('empty', 'newer'):
            want = h.interp.lib.list_concat(h.interp, old, b)
            h.prove(ops.equal(new, want), f'add_multiple.{case}.appended')
        elif case == 'overlap':
            head = h.interp.lib.getitem(h.interp, old, h.interp.e_Slice(__import__('ast').parse('x[:k]', mode='eval').body.slice,
                                                                        _fr({'k': ops.arith('-', n, ops.arith('-', m, k))})))
            want = h.interp.lib.list_concat(h.interp, head, b)
            h.prove(ops.equal(new, want), 'add_multiple.overlap.stored-minutes-replaced-and-new-minutes-appended')
        else:
            head = h.interp.lib.getitem(h.interp, old, h.interp.e_Slice(__import__('ast').parse('x[:k]', mode='eval').body.slice,
                                                                        _fr({'k': ops.arith('-', n, m)})))
            want = h.interp.lib.list_concat(h.interp, head, b)
            h.prove(ops.equal(new, want), 'add_multiple.same.replaces-the-stored-minutes')
        h.prove(h.ev('strictly_increasing(rows, n)', rows=new, n=new.n), f'add_multiple.{case}.keeps-timestamps-strictly-increasing')
    return t


def _fr(env):
    from pyvc.interp import Frame
    from pyvc.source import ModInfo
    import ast as _a
    return Frame(ModInfo('e', '<e>', '', _a.parse(''), False), dict(env))


def t_add_zero(h):
    st, arr = mk_store(h, '5m')
    old = snap_rows(arr)
    c = h.vec('c', 6)
    c.e[0] = 0
    out = h.method_outcome(st, 'add_candle', c, 'Sandbox', 'BTC-USDT', '5m', with_execution=False, with_generation=False)
    h.prove(out.ok and ops.equal(rows_now(arr), old) is not False, 'add_candle.zero-timestamp-ignored')
    if out.ok:
        h.prove(ops.equal(rows_now(arr), old), 'add_candle.zero-timestamp-leaves-store-unchanged')


def t_spacing(bad):
    """_isolated_backtest rejects candle sets whose leading candles are not one minute apart, before simulating"""
    def t(h):
        calls = []

        def stub(name, ret=None):
            return lambda i, a, k: (calls.append(name), ret)[1]
        ov = h.ctx.cfg.overrides
        for q in ('jesse.config.set_config', 'jesse.config.reset_config', 'jesse.services.validators.validate_routes',
                  'jesse.services.candle.inject_warmup_candles_to_store'):
            ov[q] = stub(q.split('.')[-1])
        ov['jesse.modes.backtest_mode.simulator'] = stub('simulator', {'metrics': None})
        router = Obj(None, {'initiate': Builtin('router.initiate', stub('router.initiate'))}, name='router')
        cstate = Obj(None, {'init_storage': Builtin('init_storage', stub('init_storage'))})
        store = Obj(None, {'candles': cstate, 'reset': Builtin('store.reset', stub('store.reset'))}, name='store')
        h.ctx.cfg.globals['jesse.routes.router'] = lambda i: router
        h.ctx.cfg.globals['jesse.store.store'] = lambda i: store
        h.ctx.cfg.globals['jesse.config.config'] = lambda i: {'app': {'considering_candles': ()}}
        sets = {}
        gaps = []
        for key in ('Sandbox-BTC-USDT', 'Sandbox-ETH-USDT'):
            a = h.ctx.fresh_arr(key, np=True, cols=6)
            h.assume(ops.compare('>=', a.n, 2))
            sets[key] = {'exchange': 'Sandbox', 'symbol': key.split('-', 1)[1], 'candles': a}
            gaps.append(ops.arith('-', a.fn(1).e[0], a.fn(0).e[0]))
        anybad = ops.lor(ops.lnot(ops.equal(gaps[0], 60000)), ops.lnot(ops.equal(gaps[1], 60000)))
        h.assume(anybad if bad else ops.lnot(anybad))
        h.cover('spacing.pre')
        cfg = {'starting_balance': 10000, 'fee': 0, 'type': 'futures', 'futures_leverage': 2, 'futures_leverage_mode': 'cross',
               'exchange': 'Sandbox', 'warm_up_candles': 0}
        out = h.outcome('jesse.research.backtest._isolated_backtest', cfg, [], [], sets)
        if bad:
            h.prove((not out.ok) and out.exc == 'ValueError', 'spacing.rejected-when-leading-candles-not-one-minute-apart',
                    {'got': 'accepted' if out.ok else out.exc})
            h.prove('simulator' not in calls, 'spacing.rejected-before-simulation')
        else:
            h.prove(out.ok, 'spacing.accepted-when-one-minute-apart', {'raised': out.exc})
            h.prove(calls.count('simulator') == 1, 'spacing.simulator-runs-once')
    return t


def tasks(tier):
    x = dict(spec_mod=SPEC)
    ov = stubs.backtest_mode()
    fill_key = (K.FILL, 0)
    add_key = (f'{CS}.add_candle', 0)
    xf = dict(x)
    xf['havoc'] = {fill_key: {'candles': lambda interp, old: records_for(interp)}}
    xa = dict(x)
    xa['frame'] = {add_key: ['arr']}
    xf = dict(xf, task_timeout_s=900)
    ts = [Task('fill', t_fill, extra=xf, overrides=dict(ov), invariants={fill_key: K.FILL_INV}),
          Task('fill.empty', t_fill_empty, extra=x, overrides=dict(ov))]
    for case in ('empty', 'newer', 'stored'):
        ts.append(Task(f'add.{case}', t_add(case), extra=dict(xa), overrides=dict(ov), invariants={add_key: K.ADD_INV}))
    for empty in (True, False):
        ts.append(Task(f'batch.{"empty" if empty else "filled"}', t_batch(empty), extra=x, overrides=dict(ov)))
    ts.append(Task('empty-candle', t_empty_candle, extra=x, overrides=dict(ov)))
    ts.append(Task('add.zero', t_add_zero, extra=dict(xa), overrides=dict(ov), invariants={add_key: K.ADD_INV}))
    for case in ('empty', 'newer', 'same', 'overlap'):
        ts.append(Task(f'multi.{case}', t_multi(case), extra=x, overrides=dict(ov)))
    for bad in (True, False):
        ts.append(Task(f'spacing.{"bad" if bad else "ok"}', t_spacing(bad), extra=x, overrides=dict(ov)))
    return ts


def records_for(interp):
    from pyvc.harness import H
    h = H.__new__(H)
    h.ctx = interp.ctx
    return records(h, 'candles')
